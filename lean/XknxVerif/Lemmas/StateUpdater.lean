/-
Helper lemmas about the state-updater monitor (`Model/StateUpdater.lean`).  Core Lean only.
-/
import XknxVerif.Model.StateUpdater

namespace XknxVerif.StateUpdater
open XknxVerif.Monitor XknxVerif.Generated.StateUpdaterConst

@[simp] theorem upd_same (s : State) (i : Nat) (f : Tr → Tr) : (upd s i f).trs i = f (s.trs i) := by simp [upd]
theorem upd_ne (s : State) {i j : Nat} (f : Tr → Tr) (h : j ≠ i) : (upd s i f).trs j = s.trs j := by simp [upd, h]
theorem upd_trs (s : State) (k i : Nat) (f : Tr → Tr) :
    (upd s k f).trs i = if i = k then f (s.trs i) else s.trs i := by simp [upd]
@[simp] theorem upd_now (s : State) (i : Nat) (f : Tr → Tr) : (upd s i f).now = s.now := rfl
@[simp] theorem upd_started (s : State) (i : Nat) (f : Tr → Tr) : (upd s i f).started = s.started := rfl
@[simp] theorem upd_inflight (s : State) (i : Nat) (f : Tr → Tr) : (upd s i f).inflight = s.inflight := rfl
@[simp] theorem upd_n (s : State) (i : Nat) (f : Tr → Tr) : (upd s i f).n = s.n := rfl

@[simp] theorem disown_length (i : Nat) (l : List Fl) : (disown i l).length = l.length := by simp [disown]
@[simp] theorem disownAll_length (l : List Fl) : (disownAll l).length = l.length := by simp [disownAll]

/-- events that (re)start the tracker of value `i` -/
def isRestart (i : Nat) : Obs → Bool
  | .begin | .conn 2 => true
  | .reg j => j == i
  | _ => false

/-- How one accepted step changes the tracker of value `i`. -/
theorem step_tr {s s' : State} {o : Obs} (h : step? s o = some s') (i : Nat) :
    (s'.trs i).kind = (s.trs i).kind ∧ (s'.trs i).interval = (s.trs i).interval ∧
    (s.now ≤ s'.now ∧ ((∀ t, o ≠ .adv t) → s'.now = s.now)) ∧
    ((s'.trs i).phase = (s.trs i).phase
     ∨ (isRestart i o = true ∧ (s'.trs i).phase = .want true)
     ∨ ((s'.trs i).phase = .off ∧ (o = .stop ∨ (∃ c, o = .conn c) ∨ o = .unreg i ∨ o = .reg i))
     ∨ (∃ st, o = .upd i st ∧ (s.trs i).kind = .expire ∧ (s'.trs i).phase = .sleeping (s.now + (s.trs i).interval))
     ∨ (o = .read i ∧ ((∃ b, (s.trs i).phase = .want b ∧ (s'.trs i).phase = .reading b)
          ∨ (∃ d, (s.trs i).phase = .sleeping d ∧ d ≤ s.now ∧ (s'.trs i).phase = .reading false)))
     ∨ (o = .done i ∧ ∃ b, (s.trs i).phase = .reading b ∧
          (((s'.trs i).phase = .done ∧ b = true ∧ (s.trs i).kind = .init)
           ∨ (s'.trs i).phase = .sleeping (s.now + (s.trs i).interval)))) := by
  cases o with
  | begin =>
    simp only [step?] at h
    split at h
    · simp at h
    · injection h with h; subst h
      split
      · simp only [startAll]
        refine ⟨by split <;> rfl, by split <;> rfl, by simp, ?_⟩
        split
        · right; left; exact ⟨rfl, rfl⟩
        · left; rfl
      · exact ⟨rfl, rfl, ⟨Nat.le_refl _, fun _ => rfl⟩, Or.inl rfl⟩
  | stop =>
    simp only [step?] at h
    injection h with h; subst h
    exact ⟨rfl, rfl, ⟨Nat.le_refl _, fun _ => rfl⟩, Or.inr (Or.inr (Or.inl ⟨rfl, Or.inl (by first | rfl | trivial)⟩))⟩
  | conn c =>
    simp only [step?] at h
    split at h
    · split at h
      · split at h
        · rename_i hc2
          injection h with h; subst h
          have : c = 2 := by simpa using hc2
          subst this
          split
          · simp only [startAll]
            refine ⟨by split <;> rfl, by split <;> rfl, by simp, ?_⟩
            split
            · right; left; exact ⟨rfl, rfl⟩
            · left; rfl
          · exact ⟨rfl, rfl, ⟨Nat.le_refl _, fun _ => rfl⟩, Or.inl rfl⟩
        · injection h with h; subst h
          split
          · exact ⟨rfl, rfl, ⟨Nat.le_refl _, fun _ => rfl⟩, Or.inr (Or.inr (Or.inl ⟨rfl, Or.inr (Or.inl ⟨c, (by first | rfl | trivial)⟩)⟩))⟩
          · exact ⟨rfl, rfl, ⟨Nat.le_refl _, fun _ => rfl⟩, Or.inl rfl⟩
      · injection h with h; subst h
        exact ⟨rfl, rfl, ⟨Nat.le_refl _, fun _ => rfl⟩, Or.inl rfl⟩
    · simp at h
  | reg k =>
    simp only [step?] at h
    split at h
    · injection h with h; subst h
      rw [upd_trs]
      split
      · rename_i hik; subst hik
        refine ⟨rfl, rfl, ⟨Nat.le_refl _, fun _ => rfl⟩, ?_⟩
        simp only
        split
        · right; left; exact ⟨by simp [isRestart], rfl⟩
        · right; right; left; exact ⟨rfl, Or.inr (Or.inr (Or.inr (by first | rfl | trivial)))⟩
      · exact ⟨rfl, rfl, ⟨Nat.le_refl _, fun _ => rfl⟩, Or.inl rfl⟩
    · simp at h
  | unreg k =>
    simp only [step?] at h
    split at h
    · injection h with h; subst h
      simp only
      rw [upd_trs]
      split
      · rename_i hik; subst hik
        exact ⟨rfl, rfl, ⟨Nat.le_refl _, fun _ => rfl⟩, Or.inr (Or.inr (Or.inl ⟨rfl, Or.inr (Or.inr (Or.inl (by first | rfl | trivial)))⟩))⟩
      · exact ⟨rfl, rfl, ⟨Nat.le_refl _, fun _ => rfl⟩, Or.inl rfl⟩
    · simp at h
  | upd k st =>
    simp only [step?] at h
    split at h
    · split at h
      · rename_i hact
        injection h with h; subst h
        simp only
        rw [upd_trs]
        split
        · rename_i hik; subst hik
          exact ⟨rfl, rfl, ⟨Nat.le_refl _, fun _ => rfl⟩, Or.inr (Or.inr (Or.inr (Or.inl ⟨st, rfl, hact.2, rfl⟩)))⟩
        · exact ⟨rfl, rfl, ⟨Nat.le_refl _, fun _ => rfl⟩, Or.inl rfl⟩
      · injection h with h; subst h
        exact ⟨rfl, rfl, ⟨Nat.le_refl _, fun _ => rfl⟩, Or.inl rfl⟩
    · simp at h
  | adv t =>
    simp only [step?] at h
    split at h
    · rename_i hc
      injection h with h; subst h
      exact ⟨rfl, rfl, ⟨Nat.le_of_lt hc.1, fun hna => absurd rfl (hna t)⟩, Or.inl rfl⟩
    · simp at h
  | read k =>
    simp only [step?] at h
    split at h
    · split at h
      · rename_i b hph
        injection h with h; subst h
        simp only
        rw [upd_trs]
        split
        · rename_i hik; subst hik
          exact ⟨rfl, rfl, ⟨Nat.le_refl _, fun _ => rfl⟩, Or.inr (Or.inr (Or.inr (Or.inr (Or.inl ⟨rfl, Or.inl ⟨b, hph, rfl⟩⟩))))⟩
        · exact ⟨rfl, rfl, ⟨Nat.le_refl _, fun _ => rfl⟩, Or.inl rfl⟩
      · rename_i d hph
        split at h
        · rename_i hd
          injection h with h; subst h
          simp only
          rw [upd_trs]
          split
          · rename_i hik; subst hik
            exact ⟨rfl, rfl, ⟨Nat.le_refl _, fun _ => rfl⟩, Or.inr (Or.inr (Or.inr (Or.inr (Or.inl ⟨rfl, Or.inr ⟨d, hph, hd, rfl⟩⟩))))⟩
          · exact ⟨rfl, rfl, ⟨Nat.le_refl _, fun _ => rfl⟩, Or.inl rfl⟩
        · simp at h
      · simp at h
    · simp at h
  | done k =>
    simp only [step?] at h
    split at h
    · simp at h
    · rename_i e he
      split at h
      · split at h
        · rename_i b hph
          injection h with h; subst h
          rw [upd_trs]
          split
          · rename_i hik; subst hik
            refine ⟨rfl, rfl, ⟨Nat.le_refl _, fun _ => rfl⟩, Or.inr (Or.inr (Or.inr (Or.inr (Or.inr ⟨rfl, b, hph, ?_⟩))))⟩
            simp only
            split
            · rename_i hb; left; exact ⟨rfl, hb.1, hb.2⟩
            · right; rfl
          · exact ⟨rfl, rfl, ⟨Nat.le_refl _, fun _ => rfl⟩, Or.inl rfl⟩
        · injection h with h; subst h
          exact ⟨rfl, rfl, ⟨Nat.le_refl _, fun _ => rfl⟩, Or.inl rfl⟩
      · injection h with h; subst h
        exact ⟨rfl, rfl, ⟨Nat.le_refl _, fun _ => rfl⟩, Or.inl rfl⟩
  | sa =>
    simp only [step?] at h; split at h
    · injection h with h; subst h; exact ⟨rfl, rfl, ⟨Nat.le_refl _, fun _ => rfl⟩, Or.inl rfl⟩
    · simp at h
  | sr =>
    simp only [step?] at h; split at h
    · injection h with h; subst h; exact ⟨rfl, rfl, ⟨Nat.le_refl _, fun _ => rfl⟩, Or.inl rfl⟩
    · simp at h
  | qb => simp only [step?] at h; injection h with h; subst h; exact ⟨rfl, rfl, ⟨Nat.le_refl _, fun _ => rfl⟩, Or.inl rfl⟩
  | qi => simp only [step?] at h; injection h with h; subst h; exact ⟨rfl, rfl, ⟨Nat.le_refl _, fun _ => rfl⟩, Or.inl rfl⟩

/-- What `read i` needs. -/
theorem read_requires {s s' : State} {i : Nat} (h : step? s (.read i) = some s') :
    i < s.n ∧ s.started = true ∧ (s.trs i).reg = true ∧ (s.trs i).kind ≠ .none ∧
    s.inflight.length < parallelReads ∧
    ((∃ b, (s.trs i).phase = .want b) ∨ (∃ d, (s.trs i).phase = .sleeping d ∧ d ≤ s.now)) ∧
    s'.inflight.length = s.inflight.length + 1 ∧ s.inflight.length < s.held ∧ s'.held = s.held := by
  simp only [step?] at h
  split at h
  · rename_i hc
    have hact := hc.2.1
    simp only [active, Bool.and_eq_true, bne_iff_ne, ne_eq] at hact
    split at h
    · rename_i b hph
      injection h with h; subst h
      exact ⟨hc.1, hact.1.1, hact.1.2, hact.2, hc.2.2.1, Or.inl ⟨b, hph⟩, by simp, hc.2.2.2.1, rfl⟩
    · rename_i d hph
      split at h
      · rename_i hd
        injection h with h; subst h
        exact ⟨hc.1, hact.1.1, hact.1.2, hact.2, hc.2.2.1, Or.inr ⟨d, hph, hd⟩, by simp, hc.2.2.2.1, rfl⟩
      · simp at h
    · simp at h
  · simp at h

/-- slot invariant: every read in flight holds a slot, and there are only `parallelReads` slots -/
def Slots (s : State) : Prop := s.inflight.length ≤ s.held ∧ s.held ≤ parallelReads

theorem slots_step {s s' : State} {o : Obs} (h : step? s o = some s') (hi : Slots s) : Slots s' := by
  obtain ⟨h1, h2⟩ := hi
  cases o with
  | read i =>
    have hr := read_requires h
    exact ⟨by rw [hr.2.2.2.2.2.2.1, hr.2.2.2.2.2.2.2.2]; exact hr.2.2.2.2.2.2.2.1, by rw [hr.2.2.2.2.2.2.2.2]; exact h2⟩
  | done i =>
    simp only [step?] at h
    split at h
    · simp at h
    · have hle : ∀ e, (s.inflight.erase e).length ≤ s.inflight.length := fun e => List.length_erase_le
      split at h
      · split at h <;> injection h with h <;> subst h <;> exact ⟨Nat.le_trans (hle _) h1, h2⟩
      · injection h with h; subst h; exact ⟨Nat.le_trans (hle _) h1, h2⟩
  | begin =>
    simp only [step?] at h; split at h
    · simp at h
    · injection h with h; subst h; split <;> simp [startAll, Slots] <;> exact ⟨h1, h2⟩
  | stop => simp only [step?] at h; injection h with h; subst h; simp [stopAll, Slots]; exact ⟨h1, h2⟩
  | conn c =>
    simp only [step?] at h
    repeat' split at h
    all_goals (first | (simp at h; done) | (injection h with h; subst h; simp [startAll, stopAll, Slots]; exact ⟨h1, h2⟩) | (injection h with h; subst h; exact ⟨h1, h2⟩))
  | reg k => simp only [step?] at h; split at h <;> (first | (simp at h; done) | (injection h with h; subst h; exact ⟨h1, h2⟩))
  | unreg k => simp only [step?] at h; split at h <;> (first | (simp at h; done) | (injection h with h; subst h; simp [Slots]; exact ⟨h1, h2⟩))
  | upd k st =>
    simp only [step?] at h
    repeat' split at h
    all_goals (first | (simp at h; done) | (injection h with h; subst h; simp [Slots]; exact ⟨h1, h2⟩))
  | adv t => simp only [step?] at h; split at h <;> (first | (simp at h; done) | (injection h with h; subst h; exact ⟨h1, h2⟩))
  | sa =>
    simp only [step?] at h; split at h
    · rename_i hc; injection h with h; subst h; exact ⟨Nat.le_succ_of_le h1, hc⟩
    · simp at h
  | sr =>
    simp only [step?] at h; split at h
    · rename_i hc; injection h with h; subst h; exact ⟨by show s.inflight.length ≤ s.held - 1; omega, by show s.held - 1 ≤ parallelReads; omega⟩
    · simp at h
  | qb => simp only [step?] at h; injection h with h; subst h; exact ⟨h1, h2⟩
  | qi => simp only [step?] at h; injection h with h; subst h; exact ⟨h1, h2⟩

/-- while the updater is not started every tracker is off; unregistered / non-tracking values are off -/
structure Inv (s : State) : Prop where
  stopped_off : s.started = false → ∀ i, (s.trs i).phase = .off
  unreg_off : ∀ i, (s.trs i).reg = false → (s.trs i).phase = .off
  none_off : ∀ i, (s.trs i).kind = .none → (s.trs i).phase = .off

theorem inv_init (cfg : List (Kind × Nat)) : Inv (init cfg) := by
  constructor
  · intro _ i; simp only [init]; split <;> rfl
  · intro i _; simp only [init]; split <;> rfl
  · intro i _; simp only [init]; split <;> rfl

theorem inv_step (s : State) (o : Obs) (s' : State) (hi : Inv s) (h : step? s o = some s') : Inv s' := by
  obtain ⟨h1, h2, h3⟩ := hi
  cases o with
  | begin =>
    simp only [step?] at h
    split at h
    · simp at h
    · injection h with h; subst h
      split
      · constructor
        · intro hs; simp [startAll] at hs
        · intro i hr; simp only [startAll] at hr ⊢
          split
          · rename_i hc; split at hr <;> simp_all
          · exact h2 i (by split at hr <;> simp_all)
        · intro i hk; simp only [startAll] at hk ⊢
          split
          · rename_i hc; split at hk <;> simp_all
          · exact h3 i (by split at hk <;> simp_all)
      · exact ⟨h1, h2, h3⟩
  | stop =>
    simp only [step?] at h
    injection h with h; subst h
    constructor <;> intros <;> rfl
  | conn c =>
    simp only [step?] at h
    split at h
    · split at h
      · split at h
        · injection h with h; subst h
          split
          · constructor
            · intro hs; simp [startAll] at hs
            · intro i hr; simp only [startAll] at hr ⊢
              split
              · rename_i hc; split at hr <;> simp_all
              · exact h2 i (by split at hr <;> simp_all)
            · intro i hk; simp only [startAll] at hk ⊢
              split
              · rename_i hc; split at hk <;> simp_all
              · exact h3 i (by split at hk <;> simp_all)
          · exact ⟨h1, h2, h3⟩
        · injection h with h; subst h
          split
          · constructor <;> intros <;> rfl
          · exact ⟨h1, h2, h3⟩
      · injection h with h; subst h
        exact ⟨h1, h2, h3⟩
    · simp at h
  | reg k =>
    simp only [step?] at h
    split at h
    · injection h with h; subst h
      constructor
      · intro hs i
        rw [upd_trs]; split
        · simp only [upd_started] at hs; simp [hs]
        · exact h1 hs i
      · intro i hr
        rw [upd_trs] at hr ⊢; split
        · rename_i hik; simp [hik] at hr
        · rename_i hik; simp only [hik, ↓reduceIte] at hr; exact h2 i hr
      · intro i hk
        rw [upd_trs] at hk ⊢; split
        · rename_i hik; subst hik; simp only [↓reduceIte] at hk; simp [hk]
        · rename_i hik; simp only [hik, ↓reduceIte] at hk; exact h3 i hk
    · simp at h
  | unreg k =>
    simp only [step?] at h
    split at h
    · injection h with h; subst h
      constructor
      · intro hs i
        simp only; rw [upd_trs]; split
        · rfl
        · exact h1 hs i
      · intro i hr
        simp only at hr ⊢; rw [upd_trs] at hr ⊢; split
        · rfl
        · rename_i hik; simp only [hik, ↓reduceIte] at hr; exact h2 i hr
      · intro i hk
        simp only at hk ⊢; rw [upd_trs] at hk ⊢; split
        · rfl
        · rename_i hik; simp only [hik, ↓reduceIte] at hk; exact h3 i hk
    · simp at h
  | upd k st =>
    simp only [step?] at h
    split at h
    · split at h
      · rename_i hact
        have hact1 := hact.1
        simp only [active, Bool.and_eq_true, bne_iff_ne, ne_eq] at hact1
        injection h with h; subst h
        constructor
        · intro hs; simp only [upd_started] at hs; rw [hact1.1.1] at hs; simp at hs
        · intro i hr
          simp only at hr ⊢; rw [upd_trs] at hr ⊢; split
          · rename_i hik; subst hik; simp only [↓reduceIte] at hr; rw [hact1.1.2] at hr; simp at hr
          · rename_i hik; simp only [hik, ↓reduceIte] at hr; exact h2 i hr
        · intro i hk
          simp only at hk ⊢; rw [upd_trs] at hk ⊢; split
          · rename_i hik; subst hik; simp only [↓reduceIte] at hk; exact absurd hk hact1.2
          · rename_i hik; simp only [hik, ↓reduceIte] at hk; exact h3 i hk
      · injection h with h; subst h; exact ⟨h1, h2, h3⟩
    · simp at h
  | adv t =>
    simp only [step?] at h
    split at h
    · injection h with h; subst h; exact ⟨h1, h2, h3⟩
    · simp at h
  | read k =>
    have hr := read_requires h
    have hst := fun i => step_tr h i
    -- phases only change for k, which is started, registered and tracking
    simp only [step?] at h
    split at h
    · split at h
      · injection h with h; subst h
        constructor
        · intro hs; simp only [upd_started] at hs; rw [hr.2.1] at hs; simp at hs
        · intro i hreg
          simp only at hreg ⊢; rw [upd_trs] at hreg ⊢; split
          · rename_i hik; subst hik; simp only [↓reduceIte] at hreg; rw [hr.2.2.1] at hreg; simp at hreg
          · rename_i hik; simp only [hik, ↓reduceIte] at hreg; exact h2 i hreg
        · intro i hk
          simp only at hk ⊢; rw [upd_trs] at hk ⊢; split
          · rename_i hik; subst hik; simp only [↓reduceIte] at hk; exact absurd hk hr.2.2.2.1
          · rename_i hik; simp only [hik, ↓reduceIte] at hk; exact h3 i hk
      · split at h
        · injection h with h; subst h
          constructor
          · intro hs; simp only [upd_started] at hs; rw [hr.2.1] at hs; simp at hs
          · intro i hreg
            simp only at hreg ⊢; rw [upd_trs] at hreg ⊢; split
            · rename_i hik; subst hik; simp only [↓reduceIte] at hreg; rw [hr.2.2.1] at hreg; simp at hreg
            · rename_i hik; simp only [hik, ↓reduceIte] at hreg; exact h2 i hreg
          · intro i hk
            simp only at hk ⊢; rw [upd_trs] at hk ⊢; split
            · rename_i hik; subst hik; simp only [↓reduceIte] at hk; exact absurd hk hr.2.2.2.1
            · rename_i hik; simp only [hik, ↓reduceIte] at hk; exact h3 i hk
        · simp at h
      · simp at h
    · simp at h
  | done k =>
    simp only [step?] at h
    split at h
    · simp at h
    · split at h
      · split at h
        · rename_i b hph
          injection h with h; subst h
          have hne : (s.trs k).phase ≠ .off := by rw [hph]; simp
          constructor
          · intro hs i
            exact absurd (h1 (by simpa using hs) k) hne
          · intro i hreg
            rw [upd_trs] at hreg ⊢; split
            · rename_i hik; subst hik; simp only [↓reduceIte] at hreg; exact absurd (h2 i hreg) hne
            · rename_i hik; simp only [hik, ↓reduceIte] at hreg; exact h2 i hreg
          · intro i hk
            rw [upd_trs] at hk ⊢; split
            · rename_i hik; subst hik; simp only [↓reduceIte] at hk; exact absurd (h3 i hk) hne
            · rename_i hik; simp only [hik, ↓reduceIte] at hk; exact h3 i hk
        · injection h with h; subst h; exact ⟨h1, h2, h3⟩
      · injection h with h; subst h; exact ⟨h1, h2, h3⟩
  | sa =>
    simp only [step?] at h; split at h
    · injection h with h; subst h; exact ⟨h1, h2, h3⟩
    · simp at h
  | sr =>
    simp only [step?] at h; split at h
    · injection h with h; subst h; exact ⟨h1, h2, h3⟩
    · simp at h
  | qb => simp only [step?] at h; injection h with h; subst h; exact ⟨h1, h2, h3⟩
  | qi => simp only [step?] at h; injection h with h; subst h; exact ⟨h1, h2, h3⟩

/-- How one accepted step changes `started`, the registration of value `i` and `n`. -/
theorem flags_step {s s' : State} {o : Obs} (h : step? s o = some s') (i : Nat) :
    (s'.started = true → s.started = true ∨ o = .begin ∨ o = .conn 2) ∧
    (s.started = true → s'.started = true ∨ o = .stop ∨ ∃ c, o = .conn c) ∧
    ((s'.trs i).reg = true → (s.trs i).reg = true ∨ o = .reg i) ∧
    ((s.trs i).reg = true → (s'.trs i).reg = true ∨ o = .unreg i) ∧ s'.n = s.n := by
  cases o with
  | begin =>
    simp only [step?] at h; split at h
    · simp at h
    · injection h with h; subst h
      split <;> simp [startAll] <;> (try (split <;> simp_all))
  | stop =>
    simp only [step?] at h; injection h with h; subst h
    simp [stopAll]
  | conn c =>
    simp only [step?] at h
    split at h
    · split at h
      · split at h
        · rename_i hc2
          have : c = 2 := by simpa using hc2
          subst this
          injection h with h; subst h
          split <;> simp [startAll] <;> (try (split <;> simp_all))
        · injection h with h; subst h
          split <;> simp [stopAll] <;> (try (intro hx; exact Or.inl hx))
      · injection h with h; subst h; simp; (try (intro hx; exact Or.inl hx))
    · simp at h
  | reg k =>
    simp only [step?] at h; split at h
    · injection h with h; subst h
      simp only [upd_started, upd_n, upd_trs]
      refine ⟨Or.inl, Or.inl, ?_, ?_, trivial⟩
      · split
        · rename_i hik; subst hik; intro _; exact Or.inr rfl
        · exact Or.inl
      · split
        · intro _; left; rfl
        · exact Or.inl
    · simp at h
  | unreg k =>
    simp only [step?] at h; split at h
    · injection h with h; subst h
      simp only [upd_started, upd_n, upd_trs]
      refine ⟨Or.inl, Or.inl, ?_, ?_, trivial⟩
      · split
        · simp
        · exact Or.inl
      · split
        · rename_i hik; subst hik; intro _; exact Or.inr rfl
        · exact Or.inl
    · simp at h
  | upd k st =>
    simp only [step?] at h
    split at h
    · split at h
      · injection h with h; subst h
        simp only [upd_started, upd_n, upd_trs]
        refine ⟨Or.inl, Or.inl, ?_, ?_, trivial⟩ <;> split <;> simp_all
      · injection h with h; subst h
        exact ⟨Or.inl, Or.inl, Or.inl, Or.inl, rfl⟩
    · simp at h
  | adv t =>
    simp only [step?] at h; split at h
    · injection h with h; subst h; exact ⟨Or.inl, Or.inl, Or.inl, Or.inl, rfl⟩
    · simp at h
  | read k =>
    simp only [step?] at h
    split at h
    · split at h
      · injection h with h; subst h
        simp only [upd_started, upd_n, upd_trs]
        refine ⟨Or.inl, Or.inl, ?_, ?_, trivial⟩ <;> split <;> simp_all
      · split at h
        · injection h with h; subst h
          simp only [upd_started, upd_n, upd_trs]
          refine ⟨Or.inl, Or.inl, ?_, ?_, trivial⟩ <;> split <;> simp_all
        · simp at h
      · simp at h
    · simp at h
  | done k =>
    simp only [step?] at h
    split at h
    · simp at h
    · split at h
      · split at h
        · injection h with h; subst h
          simp only [upd_started, upd_n, upd_trs]
          refine ⟨Or.inl, Or.inl, ?_, ?_, trivial⟩ <;> split <;> simp_all
        · injection h with h; subst h
          exact ⟨Or.inl, Or.inl, Or.inl, Or.inl, rfl⟩
      · injection h with h; subst h
        exact ⟨Or.inl, Or.inl, Or.inl, Or.inl, rfl⟩
  | sa =>
    simp only [step?] at h; split at h
    · injection h with h; subst h; exact ⟨Or.inl, Or.inl, Or.inl, Or.inl, rfl⟩
    · simp at h
  | sr =>
    simp only [step?] at h; split at h
    · injection h with h; subst h; exact ⟨Or.inl, Or.inl, Or.inl, Or.inl, rfl⟩
    · simp at h
  | qb => simp only [step?] at h; injection h with h; subst h; exact ⟨Or.inl, Or.inl, Or.inl, Or.inl, rfl⟩
  | qi => simp only [step?] at h; injection h with h; subst h; exact ⟨Or.inl, Or.inl, Or.inl, Or.inl, rfl⟩

theorem read_phase {s s' : State} {i : Nat} (h : step? s (.read i) = some s') :
    ∃ b, (s'.trs i).phase = .reading b := by
  simp only [step?] at h
  split at h
  · split at h
    · rename_i b0 _
      injection h with h; subst h; exact ⟨b0, by simp [upd]⟩
    · split at h
      · injection h with h; subst h; exact ⟨false, by simp [upd]⟩
      · simp at h
    · simp at h
  · simp at h

end XknxVerif.StateUpdater
