/-
Helper lemmas about the state-updater monitor (`Model/StateUpdater.lean`).  Core Lean only.
-/
import XknxVerif.Model.StateUpdater

namespace XknxVerif.StateUpdater
open XknxVerif.Monitor XknxVerif.Generated.StateUpdaterConst

@[simp] theorem upd_same (s : State) (i : Nat) (f : Tr → Tr) : (upd s i f).trs i = f (s.trs i) := by simp [upd]
theorem upd_ne (s : State) {i j : Nat} (f : Tr → Tr) (h : j ≠ i) : (upd s i f).trs j = s.trs j := by simp [upd, h]
theorem upd_trs (s : State) (k i : Nat) (f : Tr → Tr) :
    (upd s k f).trs i = if i = k then f (s.trs i) else s.trs i := by simp [upd]
@[simp] theorem upd_now (s : State) (i : Nat) (f : Tr → Tr) : (upd s i f).now = s.now := rfl
@[simp] theorem upd_started (s : State) (i : Nat) (f : Tr → Tr) : (upd s i f).started = s.started := rfl
@[simp] theorem upd_inflight (s : State) (i : Nat) (f : Tr → Tr) : (upd s i f).inflight = s.inflight := rfl
@[simp] theorem upd_n (s : State) (i : Nat) (f : Tr → Tr) : (upd s i f).n = s.n := rfl

@[simp] theorem disown_length (i : Nat) (l : List Fl) : (disown i l).length = l.length := by simp [disown]
@[simp] theorem disownAll_length (l : List Fl) : (disownAll l).length = l.length := by simp [disownAll]

/-- events that (re)start the tracker of value `i` -/
def isRestart (i : Nat) : Obs → Bool
  | .begin | .conn 2 => true
  | .reg j => j == i
  | _ => false

/-- How one accepted step changes the tracker of value `i`. -/
theorem step_tr {s s' : State} {o : Obs} (h : step? s o = some s') (i : Nat) :
    (s'.trs i).kind = (s.trs i).kind ∧ (s'.trs i).interval = (s.trs i).interval ∧ s.now ≤ s'.now ∧
    ((s'.trs i).phase = (s.trs i).phase
     ∨ (isRestart i o = true ∧ (s'.trs i).phase = .want true)
     ∨ (s'.trs i).phase = .off
     ∨ (∃ st, o = .upd i st ∧ (s.trs i).kind = .expire ∧ (s'.trs i).phase = .sleeping (s.now + (s.trs i).interval))
     ∨ (o = .read i ∧ ((∃ b, (s.trs i).phase = .want b ∧ (s'.trs i).phase = .reading b)
          ∨ (∃ d, (s.trs i).phase = .sleeping d ∧ d ≤ s.now ∧ (s'.trs i).phase = .reading false)))
     ∨ (o = .done i ∧ ∃ b, (s.trs i).phase = .reading b ∧
          (((s'.trs i).phase = .done ∧ b = true ∧ (s.trs i).kind = .init)
           ∨ (s'.trs i).phase = .sleeping (s.now + (s.trs i).interval)))) := by
  cases o with
  | begin =>
    simp only [step?] at h
    split at h
    · simp at h
    · injection h with h; subst h
      split
      · simp only [startAll]
        refine ⟨by split <;> rfl, by split <;> rfl, Nat.le_refl _, ?_⟩
        split
        · right; left; exact ⟨rfl, rfl⟩
        · left; rfl
      · exact ⟨rfl, rfl, Nat.le_refl _, Or.inl rfl⟩
  | stop =>
    simp only [step?] at h
    injection h with h; subst h
    exact ⟨rfl, rfl, Nat.le_refl _, Or.inr (Or.inr (Or.inl rfl))⟩
  | conn c =>
    simp only [step?] at h
    split at h
    · split at h
      · split at h
        · rename_i hc2
          injection h with h; subst h
          have : c = 2 := by simpa using hc2
          subst this
          split
          · simp only [startAll]
            refine ⟨by split <;> rfl, by split <;> rfl, Nat.le_refl _, ?_⟩
            split
            · right; left; exact ⟨rfl, rfl⟩
            · left; rfl
          · exact ⟨rfl, rfl, Nat.le_refl _, Or.inl rfl⟩
        · injection h with h; subst h
          split
          · exact ⟨rfl, rfl, Nat.le_refl _, Or.inr (Or.inr (Or.inl rfl))⟩
          · exact ⟨rfl, rfl, Nat.le_refl _, Or.inl rfl⟩
      · injection h with h; subst h
        exact ⟨rfl, rfl, Nat.le_refl _, Or.inl rfl⟩
    · simp at h
  | reg k =>
    simp only [step?] at h
    split at h
    · injection h with h; subst h
      rw [upd_trs]
      split
      · rename_i hik; subst hik
        refine ⟨rfl, rfl, Nat.le_refl _, ?_⟩
        simp only
        split
        · right; left; exact ⟨by simp [isRestart], rfl⟩
        · right; right; left; rfl
      · exact ⟨rfl, rfl, Nat.le_refl _, Or.inl rfl⟩
    · simp at h
  | unreg k =>
    simp only [step?] at h
    split at h
    · injection h with h; subst h
      simp only
      rw [upd_trs]
      split
      · exact ⟨rfl, rfl, Nat.le_refl _, Or.inr (Or.inr (Or.inl rfl))⟩
      · exact ⟨rfl, rfl, Nat.le_refl _, Or.inl rfl⟩
    · simp at h
  | upd k st =>
    simp only [step?] at h
    split at h
    · split at h
      · rename_i hact
        injection h with h; subst h
        simp only
        rw [upd_trs]
        split
        · rename_i hik; subst hik
          exact ⟨rfl, rfl, Nat.le_refl _, Or.inr (Or.inr (Or.inr (Or.inl ⟨st, rfl, hact.2, rfl⟩)))⟩
        · exact ⟨rfl, rfl, Nat.le_refl _, Or.inl rfl⟩
      · injection h with h; subst h
        exact ⟨rfl, rfl, Nat.le_refl _, Or.inl rfl⟩
    · simp at h
  | adv t =>
    simp only [step?] at h
    split at h
    · rename_i hc
      injection h with h; subst h
      exact ⟨rfl, rfl, Nat.le_of_lt hc.1, Or.inl rfl⟩
    · simp at h
  | read k =>
    simp only [step?] at h
    split at h
    · split at h
      · rename_i b hph
        injection h with h; subst h
        simp only
        rw [upd_trs]
        split
        · rename_i hik; subst hik
          exact ⟨rfl, rfl, Nat.le_refl _, Or.inr (Or.inr (Or.inr (Or.inr (Or.inl ⟨rfl, Or.inl ⟨b, hph, rfl⟩⟩))))⟩
        · exact ⟨rfl, rfl, Nat.le_refl _, Or.inl rfl⟩
      · rename_i d hph
        split at h
        · rename_i hd
          injection h with h; subst h
          simp only
          rw [upd_trs]
          split
          · rename_i hik; subst hik
            exact ⟨rfl, rfl, Nat.le_refl _, Or.inr (Or.inr (Or.inr (Or.inr (Or.inl ⟨rfl, Or.inr ⟨d, hph, hd, rfl⟩⟩))))⟩
          · exact ⟨rfl, rfl, Nat.le_refl _, Or.inl rfl⟩
        · simp at h
      · simp at h
    · simp at h
  | done k =>
    simp only [step?] at h
    split at h
    · simp at h
    · rename_i e he
      split at h
      · split at h
        · rename_i b hph
          injection h with h; subst h
          rw [upd_trs]
          split
          · rename_i hik; subst hik
            refine ⟨rfl, rfl, Nat.le_refl _, Or.inr (Or.inr (Or.inr (Or.inr (Or.inr ⟨rfl, b, hph, ?_⟩))))⟩
            simp only
            split
            · rename_i hb; left; exact ⟨rfl, hb.1, hb.2⟩
            · right; rfl
          · exact ⟨rfl, rfl, Nat.le_refl _, Or.inl rfl⟩
        · injection h with h; subst h
          exact ⟨rfl, rfl, Nat.le_refl _, Or.inl rfl⟩
      · injection h with h; subst h
        exact ⟨rfl, rfl, Nat.le_refl _, Or.inl rfl⟩

/-- What `read i` needs. -/
theorem read_requires {s s' : State} {i : Nat} (h : step? s (.read i) = some s') :
    i < s.n ∧ s.started = true ∧ (s.trs i).reg = true ∧ (s.trs i).kind ≠ .none ∧
    s.inflight.length < parallelReads ∧
    ((∃ b, (s.trs i).phase = .want b) ∨ (∃ d, (s.trs i).phase = .sleeping d ∧ d ≤ s.now)) ∧
    s'.inflight.length = s.inflight.length + 1 := by
  simp only [step?] at h
  split at h
  · rename_i hc
    have hact := hc.2.1
    simp only [active, Bool.and_eq_true, bne_iff_ne, ne_eq] at hact
    split at h
    · rename_i b hph
      injection h with h; subst h
      exact ⟨hc.1, hact.1.1, hact.1.2, hact.2, hc.2.2, Or.inl ⟨b, hph⟩, by simp⟩
    · rename_i d hph
      split at h
      · rename_i hd
        injection h with h; subst h
        exact ⟨hc.1, hact.1.1, hact.1.2, hact.2, hc.2.2, Or.inr ⟨d, hph, hd⟩, by simp⟩
      · simp at h
    · simp at h
  · simp at h

/-- the number of reads in flight never exceeds `parallelReads` -/
theorem inflight_step {s s' : State} {o : Obs} (h : step? s o = some s')
    (hi : s.inflight.length ≤ parallelReads) : s'.inflight.length ≤ parallelReads := by
  cases o with
  | read i => have := read_requires h; omega
  | done i =>
    simp only [step?] at h
    split at h
    · simp at h
    · have hle : ∀ e, (s.inflight.erase e).length ≤ s.inflight.length := fun e => List.length_erase_le
      split at h
      · split at h <;> injection h with h <;> subst h <;> simp <;> exact Nat.le_trans (hle _) hi
      · injection h with h; subst h; exact Nat.le_trans (hle _) hi
  | begin =>
    simp only [step?] at h; split at h
    · simp at h
    · injection h with h; subst h; split <;> simp [startAll] <;> exact hi
  | stop => simp only [step?] at h; injection h with h; subst h; simp [stopAll]; exact hi
  | conn c =>
    simp only [step?] at h
    repeat' split at h
    all_goals (first | (simp at h; done) | (injection h with h; subst h; simp [startAll, stopAll]; exact hi) | (injection h with h; subst h; exact hi))
  | reg k => simp only [step?] at h; split at h <;> (first | (simp at h; done) | (injection h with h; subst h; exact hi))
  | unreg k => simp only [step?] at h; split at h <;> (first | (simp at h; done) | (injection h with h; subst h; simpa using hi))
  | upd k st =>
    simp only [step?] at h
    repeat' split at h
    all_goals (first | (simp at h; done) | (injection h with h; subst h; simpa using hi))
  | adv t => simp only [step?] at h; split at h <;> (first | (simp at h; done) | (injection h with h; subst h; exact hi))

/-- while the updater is not started every tracker is off; unregistered / non-tracking values are off -/
structure Inv (s : State) : Prop where
  stopped_off : s.started = false → ∀ i, (s.trs i).phase = .off
  unreg_off : ∀ i, (s.trs i).reg = false → (s.trs i).phase = .off
  none_off : ∀ i, (s.trs i).kind = .none → (s.trs i).phase = .off

end XknxVerif.StateUpdater
