/-
A small program logic for "which exception classes can leave this model
function" (`Raises m S`: every error of `m` satisfies `S`), and its instances
for every KNX/IP parser model.  Used by Props/C20 (only declared errors) and
Props/C22 (no exception escapes the transports).
-/
import XknxVerif.Model.KNXIP.Frame

namespace XknxVerif.KNXIP
open XknxVerif.Generated.KNXIP

/-- unfold the generated structure-length constants everywhere -/
macro "kconsts" : tactic => `(tactic| simp only [Const.headerLength, Const.protocolVersion, Const.hpaiLength,
  Const.criLength, Const.criTunnelLength, Const.criTunnelExtLength, Const.crdLength, Const.crdTunnelLength,
  Const.dibHeaderLength, Const.dibDeviceInfoLength, Const.connectionStateResponseLength,
  Const.disconnectResponseLength, Const.deviceConfigurationAckLength,
  Const.deviceConfigurationRequestHeaderLength, Const.tunnellingAckLength, Const.tunnellingRequestHeaderLength,
  Const.tunnellingFeatureHeaderLength, Const.tunnellingFeatureIdLength, Const.routingBusyLength,
  Const.routingLostMessageLength, Const.securityInformationLength, Const.macLength,
  Const.secureWrapperMinimumLength, Const.sessionRequestLength, Const.sessionResponseLength,
  Const.sessionAuthenticateLength, Const.sessionStatusLength, Const.timerNotifyLength, Const.srpHeaderSize,
  Const.srpServicePayloadLength, Const.srpMacPayloadLength, connResponseLength, reqHeaderLength, ackLength] at *)

/-- linear arithmetic after unfolding the constants -/
macro "len_omega" : tactic => `(tactic| first | omega | (kconsts <;> omega))

/-- Every exception `m` can raise satisfies `S`. -/
def Raises {α} (m : PyM α) (S : Exc → Prop) : Prop := ∀ e, m = .error e → S e

namespace Raises
variable {α β : Type} {S : Exc → Prop}

theorem ok (a : α) : Raises (.ok a : PyM α) S := by intro e h; cases h

theorem error (e : Exc) (h : S e) : Raises (.error e : PyM α) S := by
  intro e' h'; cases h'; exact h

theorem mono {m : PyM α} {S' : Exc → Prop} (h : Raises m S) (hs : ∀ e, S e → S' e) : Raises m S' :=
  fun e he => hs e (h e he)

theorem bind {m : PyM α} {f : α → PyM β} (hm : Raises m S) (hf : ∀ a, m = .ok a → Raises (f a) S) :
    Raises (m >>= f) S := by
  intro e h
  cases hm' : m with
  | error e' =>
    rw [hm'] at h
    simp only [Bind.bind, Except.bind] at h
    cases h
    exact hm _ hm'
  | ok a =>
    rw [hm'] at h
    exact hf a hm' e h

theorem ite' {c : Prop} [Decidable c] {t e : PyM α} (ht : c → Raises t S) (he : ¬ c → Raises e S) :
    Raises (if c then t else e) S := by
  split
  · exact ht ‹_›
  · exact he ‹_›

theorem idx {raw : Bytes} {i : Nat} (h : i < raw.length) : Raises (idx raw i) S := by
  intro e he
  unfold KNXIP.idx at he
  rw [List.getElem?_eq_getElem h] at he
  cases he

theorem enumOf (codes : List Nat) (x : Nat) : Raises (enumOf codes x) (fun e => e = .valueError ∨ S e) := by
  intro e he
  unfold KNXIP.enumOf at he
  split at he
  · cases he
  · cases he; exact Or.inl rfl

theorem exceptValue {m h : PyM α} (hm : Raises m (fun e => e = .valueError ∨ S e)) (hh : Raises h S) :
    Raises (exceptValue m h) S := by
  intro e he
  unfold KNXIP.exceptValue at he
  split at he
  · exact hh e he
  · rename_i hne
    rcases hm e he with h1 | h1
    · subst h1; exact absurd he (hne · )
    · exact h1

theorem inetNtoa {b : Bytes} (h : b.length = 4) : Raises (inetNtoa b) S := by
  intro e he
  unfold KNXIP.inetNtoa at he
  rw [if_pos h] at he
  cases he

end Raises

theorem idx_lt {raw : Bytes} {i a : Nat} (h : idx raw i = .ok a) : i < raw.length := by
  have := idx_eq_ok h
  exact (List.getElem?_eq_some_iff.mp this).1

theorem slice_length (b : Bytes) (lo hi : Nat) : (Bytes.slice b lo hi).length = min hi b.length - lo := by
  simp [Bytes.slice, List.length_drop, List.length_take]

end XknxVerif.KNXIP
