/-
Helper lemmas about the task-registry monitor (`Model/TaskRegistry.lean`): structural invariant,
per-task summary of an accepted step, and the step-preservation facts used by `Props/C36.lean`.
Core Lean only.
-/
import XknxVerif.Model.TaskRegistry

namespace XknxVerif.TaskRegistry
open XknxVerif.Monitor

/-! ### bridging lemmas -/

@[simp] theorem upd_same (s : State) (i : Nat) (f : TaskSt → TaskSt) :
    (upd s i f).tasks i = f (s.tasks i) := by simp [upd]

theorem upd_ne (s : State) {i j : Nat} (f : TaskSt → TaskSt) (h : j ≠ i) :
    (upd s i f).tasks j = s.tasks j := by simp [upd, h]

@[simp] theorem upd_n (s : State) (i : Nat) (f : TaskSt → TaskSt) : (upd s i f).n = s.n := rfl

@[simp] theorem upd_listening (s : State) (i : Nat) (f : TaskSt → TaskSt) :
    (upd s i f).listening = s.listening := rfl

@[simp] theorem upd_connected (s : State) (i : Nat) (f : TaskSt → TaskSt) :
    (upd s i f).connected = s.connected := rfl

@[simp] theorem cancelCur_cur (t : TaskSt) : (cancelCur t).cur = none := by
  unfold cancelCur; split <;> simp_all

@[simp] theorem cancelCur_registered (t : TaskSt) : (cancelCur t).registered = t.registered := by
  unfold cancelCur; split <;> rfl

@[simp] theorem cancelCur_expectSpawn (t : TaskSt) : (cancelCur t).expectSpawn = t.expectSpawn := by
  unfold cancelCur; split <;> rfl

@[simp] theorem cancelCur_nextGen (t : TaskSt) : (cancelCur t).nextGen = t.nextGen := by
  unfold cancelCur; split <;> rfl

@[simp] theorem cancelCur_opts (t : TaskSt) : (cancelCur t).opts = t.opts := by
  unfold cancelCur; split <;> rfl

theorem quiet_iff (s : State) : quiet s = true ↔ ∀ i, i < s.n → (s.tasks i).expectSpawn = false := by
  simp [quiet]

/-- The structural invariant of the monitor state. -/
structure TInv (n i : Nat) (t : TaskSt) : Prop where
  unreg : t.registered = false → t.cur = none ∧ t.expectSpawn = false
  pending : t.expectSpawn = true → t.cur = none
  bound : t.registered = true → i < n

def Inv (s : State) : Prop := ∀ i, TInv s.n i (s.tasks i)

theorem inv_init (opts : List Opts) : Inv (init opts) := by
  intro i
  constructor <;> simp [init, TaskSt.init]

theorem connTask_fields (l : Bool) (c : Nat) (t : TaskSt) :
    (connTask l c t).registered = t.registered ∧ (connTask l c t).opts = t.opts ∧
    (connTask l c t).nextGen = t.nextGen ∧
    ((connTask l c t).expectSpawn = true → t.expectSpawn = true ∨
        (l = true ∧ t.registered = true ∧ t.opts.restart = true ∧ c = 2)) ∧
    (t.cur = none → (connTask l c t).cur = none) ∧
    ((l = true ∧ t.registered = true ∧ t.opts.restart = true) → (connTask l c t).cur = none) := by
  unfold connTask
  by_cases hc : c = 2 <;> by_cases hl : l = true <;> by_cases hr : t.registered = true <;>
    by_cases ho : t.opts.restart = true <;> simp_all

theorem inv_step (s : State) (o : Obs) (s' : State) (hi : Inv s) (h : step? s o = some s') : Inv s' := by
  cases o with
  | start i =>
    simp only [step?] at h
    split at h
    · rename_i hc
      injection h with h; subst h
      intro j
      by_cases hj : j = i
      · subst hj
        constructor
        · simp
        · intro _; simp only [upd_same]; split <;> simp [(hi j).unreg, *]
        · intro _; simpa using hc.1
      · rw [upd_ne _ _ hj]; exact hi j
    · simp at h
  | remove i =>
    simp only [step?] at h
    split at h
    · injection h with h; subst h
      intro j
      by_cases hj : j = i
      · subst hj
        have hq := (quiet_iff s).1 (by simp_all) j (by simp_all)
        constructor
        · simp only [upd_same]; split <;> simp_all
          · exact ((hi j).unreg (by simp_all)).1
        · simp only [upd_same]; split <;> simp_all
        · simp only [upd_same, upd_n]; split <;> simp_all
      · rw [upd_ne _ _ hj]; exact hi j
    · simp at h
  | stop =>
    simp only [step?] at h
    split at h
    · rename_i hq
      injection h with h; subst h
      intro j
      have hj := hi j
      by_cases hr : (s.tasks j).registered = true
      · have hqj := (quiet_iff s).1 hq j (hj.bound hr)
        constructor <;> simp [hr, hqj]
      · simp only [Bool.not_eq_true] at hr
        constructor
        · simp [hr]; exact hj.unreg hr
        · simp [hr]; exact hj.pending
        · simp [hr]
    · simp at h
  | begin =>
    simp only [step?] at h
    split at h
    · simp at h
    · injection h with h; subst h; exact hi
  | inject c =>
    simp only [step?] at h
    split at h
    · injection h with h; subst h; exact hi
    · simp at h
  | conn c =>
    simp only [step?] at h
    split at h
    · rename_i hc
      injection h with h; subst h
      intro j
      have hj := hi j
      obtain ⟨f1, _, _, f4, f5, f6⟩ := connTask_fields s.listening c (s.tasks j)
      constructor
      · intro hr
        simp only at hr ⊢
        rw [f1] at hr
        refine ⟨f5 (hj.unreg hr).1, ?_⟩
        cases he : (connTask s.listening c (s.tasks j)).expectSpawn
        · rfl
        · rcases f4 he with h1 | h1
          · rw [(hj.unreg hr).2] at h1; simp at h1
          · rw [hr] at h1; simp at h1
      · intro he
        simp only at he ⊢
        rcases f4 he with h1 | h1
        · exact f5 (hj.pending h1)
        · exact f6 ⟨h1.1, h1.2.1, h1.2.2.1⟩
      · intro hr
        simp only at hr ⊢
        rw [f1] at hr
        exact hj.bound hr
    · simp at h
  | adv t =>
    simp only [step?] at h
    split at h
    · injection h with h; subst h; exact hi
    · simp at h
  | spawn i g =>
    simp only [step?] at h
    split at h
    · rename_i hc
      injection h with h; subst h
      intro j
      by_cases hj : j = i
      · subst hj
        have hjj := hi j
        constructor
        · simp only [upd_same]
          intro hr
          have := (hjj.unreg hr).2
          simp_all
        · simp
        · simp only [upd_same, upd_n]; exact hjj.bound
      · rw [upd_ne _ _ hj]; exact hi j
    · simp at h
  | enter i g =>
    simp only [step?] at h
    split at h
    · rename_i c hcur
      split at h
      · injection h with h; subst h
        intro j
        by_cases hj : j = i
        · subst hj
          have hjj := hi j
          constructor
          · simp only [upd_same]; intro hr; have := (hjj.unreg hr).1; simp_all
          · simp only [upd_same]; intro he; have := hjj.pending he; simp_all
          · simp only [upd_same, upd_n]; exact hjj.bound
        · rw [upd_ne _ _ hj]; exact hi j
      · simp at h
    · simp at h
  | exit i g =>
    simp only [step?] at h
    have zcase : ∀ (s' : State),
        s' = upd s i (fun t => { t with zombies := t.zombies.map fun z => if z = ⟨g, true⟩ then ⟨g, false⟩ else z }) →
        Inv s' := by
      intro s' hs; subst hs
      intro j
      by_cases hj : j = i
      · subst hj
        have hjj := hi j
        constructor
        · simp only [upd_same]; exact hjj.unreg
        · simp only [upd_same]; exact hjj.pending
        · simp only [upd_same, upd_n]; exact hjj.bound
      · rw [upd_ne _ _ hj]; exact hi j
    split at h
    · rename_i c hcur
      split at h
      · injection h with h; subst h
        intro j
        by_cases hj : j = i
        · subst hj
          have hjj := hi j
          constructor
          · simp only [upd_same]; intro hr; have := (hjj.unreg hr).1; simp_all
          · simp only [upd_same]; intro he; have := hjj.pending he; simp_all
          · simp only [upd_same, upd_n]; exact hjj.bound
        · rw [upd_ne _ _ hj]; exact hi j
      · split at h
        · injection h with h; exact zcase _ h.symm
        · simp at h
    · split at h
      · injection h with h; exact zcase _ h.symm
      · simp at h
  | done i g =>
    simp only [step?] at h
    have zcase : ∀ (s' : State),
        s' = upd s i (fun t => { t with zombies := t.zombies.erase ⟨g, false⟩ }) → Inv s' := by
      intro s' hs; subst hs
      intro j
      by_cases hj : j = i
      · subst hj
        have hjj := hi j
        constructor
        · simp only [upd_same]; exact hjj.unreg
        · simp only [upd_same]; exact hjj.pending
        · simp only [upd_same, upd_n]; exact hjj.bound
      · rw [upd_ne _ _ hj]; exact hi j
    split at h
    · rename_i c hcur
      split at h
      · split at h
        · injection h with h; subst h
          intro j
          by_cases hj : j = i
          · subst hj
            have hjj := hi j
            constructor
            · simp only [upd_same]; intro hr; exact ⟨trivial, (hjj.unreg hr).2⟩
            · simp
            · simp only [upd_same, upd_n]; exact hjj.bound
          · rw [upd_ne _ _ hj]; exact hi j
        · simp at h
      · split at h
        · injection h with h; exact zcase _ h.symm
        · simp at h
    · split at h
      · injection h with h; exact zcase _ h.symm
      · simp at h
  | snap l =>
    simp only [step?] at h
    split at h
    · injection h with h; subst h; exact hi
    · simp at h

/-! ### how one accepted step changes one task -/

/-- Summary of an accepted step as seen from task `i`. -/
theorem step_task {s s' : State} {o : Obs} (h : step? s o = some s') (i : Nat) :
    (s'.tasks i).opts = (s.tasks i).opts ∧
    ((o = .spawn i (s.tasks i).nextGen ∧ (s.tasks i).expectSpawn = true ∧
        (s'.tasks i).nextGen = (s.tasks i).nextGen + 1 ∧ (s'.tasks i).expectSpawn = false ∧
        ∃ c', (s'.tasks i).cur = some c' ∧ c'.gen = (s.tasks i).nextGen)
     ∨ ((∀ g, o ≠ .spawn i g) ∧ (s'.tasks i).nextGen = (s.tasks i).nextGen ∧
        ((s'.tasks i).cur = none ∨
          ∃ c c', (s.tasks i).cur = some c ∧ (s'.tasks i).cur = some c' ∧ c'.gen = c.gen))) ∧
    ((s'.tasks i).expectSpawn = true → (s.tasks i).expectSpawn = true ∨ o = .start i ∨
        (o = .conn 2 ∧ s.listening = true ∧ (s.tasks i).registered = true ∧ (s.tasks i).opts.restart = true)) ∧
    ((s'.tasks i).registered = true → (s.tasks i).registered = true ∨ o = .start i) := by
  have keep : ∀ t : TaskSt, (t.cur = none ∨ ∃ c c', t.cur = some c ∧ t.cur = some c' ∧ c'.gen = c.gen) := by
    intro t; cases hc : t.cur with
    | none => left; rfl
    | some c => right; exact ⟨c, c, rfl, rfl, rfl⟩
  cases o with
  | start k =>
    simp only [step?] at h
    split at h
    · injection h with h; subst h
      by_cases hj : i = k
      · subst hj
        refine ⟨?_, Or.inr ⟨by simp, ?_, ?_⟩, by simp, by simp⟩
        · simp only [upd_same]; split <;> simp
        · simp only [upd_same]; split <;> simp
        · simp only [upd_same]
          split
          · left; simp
          · exact keep _
      · rw [upd_ne _ _ hj]
        exact ⟨rfl, Or.inr ⟨by simp, rfl, keep _⟩, fun h => Or.inl h, fun h => Or.inl h⟩
    · simp at h
  | remove k =>
    simp only [step?] at h
    split at h
    · injection h with h; subst h
      by_cases hj : i = k
      · subst hj
        refine ⟨?_, Or.inr ⟨by simp, ?_, ?_⟩, ?_, ?_⟩ <;> simp only [upd_same] <;> split <;> simp_all
        all_goals (try exact keep _)
      · rw [upd_ne _ _ hj]
        exact ⟨rfl, Or.inr ⟨by simp, rfl, keep _⟩, fun h => Or.inl h, fun h => Or.inl h⟩
    · simp at h
  | stop =>
    simp only [step?] at h
    split at h
    · injection h with h; subst h
      refine ⟨?_, Or.inr ⟨by simp, ?_, ?_⟩, ?_, ?_⟩ <;> simp only <;> split <;> simp_all
      all_goals (try exact keep _)
    · simp at h
  | begin =>
    simp only [step?] at h
    split at h
    · simp at h
    · injection h with h; subst h
      exact ⟨rfl, Or.inr ⟨by simp, rfl, keep _⟩, fun h => Or.inl h, fun h => Or.inl h⟩
  | inject c =>
    simp only [step?] at h
    split at h
    · injection h with h; subst h
      exact ⟨rfl, Or.inr ⟨by simp, rfl, keep _⟩, fun h => Or.inl h, fun h => Or.inl h⟩
    · simp at h
  | conn c =>
    simp only [step?] at h
    split at h
    · injection h with h; subst h
      obtain ⟨f1, f2, f3, f4, f5, f6⟩ := connTask_fields s.listening c (s.tasks i)
      refine ⟨f2, Or.inr ⟨by simp, f3, ?_⟩, ?_, ?_⟩
      · simp only
        cases hc : (s.tasks i).cur with
        | none => left; exact f5 hc
        | some k =>
          unfold connTask
          by_cases h2 : c = 2 <;> by_cases hl : s.listening = true <;>
            by_cases hr : (s.tasks i).registered = true <;>
            by_cases ho : (s.tasks i).opts.restart = true <;> simp_all
      · intro he
        rcases f4 he with h1 | h1
        · exact Or.inl h1
        · obtain ⟨a, b, c', d⟩ := h1
          subst d
          exact Or.inr (Or.inr ⟨rfl, a, b, c'⟩)
      · intro hr; simp only at hr; rw [f1] at hr; exact Or.inl hr
    · simp at h
  | adv t =>
    simp only [step?] at h
    split at h
    · injection h with h; subst h
      exact ⟨rfl, Or.inr ⟨by simp, rfl, keep _⟩, fun h => Or.inl h, fun h => Or.inl h⟩
    · simp at h
  | spawn k g =>
    simp only [step?] at h
    split at h
    · rename_i hc
      injection h with h; subst h
      by_cases hj : i = k
      · subst hj
        obtain ⟨_, he, hg⟩ := hc
        subst hg
        refine ⟨by simp, Or.inl ⟨rfl, he, by simp, by simp, ⟨_, by simp; rfl, rfl⟩⟩, by simp, by simp⟩
      · rw [upd_ne _ _ hj]
        exact ⟨rfl, Or.inr ⟨by intro g hg; injection hg with a b; exact hj a.symm, rfl, keep _⟩,
          fun h => Or.inl h, fun h => Or.inl h⟩
    · simp at h
  | enter k g =>
    simp only [step?] at h
    split at h
    · rename_i c hcur
      split at h
      · injection h with h; subst h
        by_cases hj : i = k
        · subst hj
          refine ⟨by simp, Or.inr ⟨by simp, by simp, Or.inr ⟨c, { c with inTarget := true, ran := true }, hcur, by simp, rfl⟩⟩, by simp, by simp⟩
        · rw [upd_ne _ _ hj]
          exact ⟨rfl, Or.inr ⟨by simp, rfl, keep _⟩, fun h => Or.inl h, fun h => Or.inl h⟩
      · simp at h
    · simp at h
  | exit k g =>
    simp only [step?] at h
    have zcase : ∀ (s' : State),
        s' = upd s k (fun t => { t with zombies := t.zombies.map fun z => if z = ⟨g, true⟩ then ⟨g, false⟩ else z }) →
        (s'.tasks i).opts = (s.tasks i).opts ∧ (s'.tasks i).nextGen = (s.tasks i).nextGen ∧
        (s'.tasks i).cur = (s.tasks i).cur ∧ (s'.tasks i).expectSpawn = (s.tasks i).expectSpawn ∧
        (s'.tasks i).registered = (s.tasks i).registered := by
      intro s' hs; subst hs
      by_cases hj : i = k
      · subst hj; simp
      · rw [upd_ne _ _ hj]; simp
    have fin : ∀ (s' : State),
        ((s'.tasks i).opts = (s.tasks i).opts ∧ (s'.tasks i).nextGen = (s.tasks i).nextGen ∧
        (s'.tasks i).cur = (s.tasks i).cur ∧ (s'.tasks i).expectSpawn = (s.tasks i).expectSpawn ∧
        (s'.tasks i).registered = (s.tasks i).registered) →
        (s'.tasks i).opts = (s.tasks i).opts ∧
        ((Obs.exit k g = .spawn i (s.tasks i).nextGen ∧ (s.tasks i).expectSpawn = true ∧
            (s'.tasks i).nextGen = (s.tasks i).nextGen + 1 ∧ (s'.tasks i).expectSpawn = false ∧
            ∃ c', (s'.tasks i).cur = some c' ∧ c'.gen = (s.tasks i).nextGen)
         ∨ ((∀ g', Obs.exit k g ≠ .spawn i g') ∧ (s'.tasks i).nextGen = (s.tasks i).nextGen ∧
            ((s'.tasks i).cur = none ∨
              ∃ c c', (s.tasks i).cur = some c ∧ (s'.tasks i).cur = some c' ∧ c'.gen = c.gen))) ∧
        ((s'.tasks i).expectSpawn = true → (s.tasks i).expectSpawn = true ∨ Obs.exit k g = .start i ∨
            (Obs.exit k g = .conn 2 ∧ s.listening = true ∧ (s.tasks i).registered = true ∧ (s.tasks i).opts.restart = true)) ∧
        ((s'.tasks i).registered = true → (s.tasks i).registered = true ∨ Obs.exit k g = .start i) := by
      intro s' ⟨a, b, c, d, e⟩
      refine ⟨a, Or.inr ⟨by simp, b, ?_⟩, fun h => Or.inl (d ▸ h), fun h => Or.inl (e ▸ h)⟩
      rw [c]; exact keep _
    split at h
    · rename_i c hcur
      split at h
      · injection h with h; subst h
        by_cases hj : i = k
        · subst hj
          refine ⟨by simp, Or.inr ⟨by simp, by simp, Or.inr ⟨c, { c with inTarget := false, connOk := s.connected, ready := s.now + (s.tasks i).opts.rep.getD 0 + (s.tasks i).opts.wbs }, hcur, by simp, rfl⟩⟩, by simp, by simp⟩
        · rw [upd_ne _ _ hj]
          exact ⟨rfl, Or.inr ⟨by simp, rfl, keep _⟩, fun h => Or.inl h, fun h => Or.inl h⟩
      · split at h
        · injection h with h; exact fin _ (zcase _ h.symm)
        · simp at h
    · split at h
      · injection h with h; exact fin _ (zcase _ h.symm)
      · simp at h
  | done k g =>
    simp only [step?] at h
    have zcase : ∀ (s' : State),
        s' = upd s k (fun t => { t with zombies := t.zombies.erase ⟨g, false⟩ }) →
        (s'.tasks i).opts = (s.tasks i).opts ∧ (s'.tasks i).nextGen = (s.tasks i).nextGen ∧
        (s'.tasks i).cur = (s.tasks i).cur ∧ (s'.tasks i).expectSpawn = (s.tasks i).expectSpawn ∧
        (s'.tasks i).registered = (s.tasks i).registered := by
      intro s' hs; subst hs
      by_cases hj : i = k
      · subst hj; simp
      · rw [upd_ne _ _ hj]; simp
    have fin : ∀ (s' : State),
        ((s'.tasks i).opts = (s.tasks i).opts ∧ (s'.tasks i).nextGen = (s.tasks i).nextGen ∧
        (s'.tasks i).cur = (s.tasks i).cur ∧ (s'.tasks i).expectSpawn = (s.tasks i).expectSpawn ∧
        (s'.tasks i).registered = (s.tasks i).registered) →
        (s'.tasks i).opts = (s.tasks i).opts ∧
        ((Obs.done k g = .spawn i (s.tasks i).nextGen ∧ (s.tasks i).expectSpawn = true ∧
            (s'.tasks i).nextGen = (s.tasks i).nextGen + 1 ∧ (s'.tasks i).expectSpawn = false ∧
            ∃ c', (s'.tasks i).cur = some c' ∧ c'.gen = (s.tasks i).nextGen)
         ∨ ((∀ g', Obs.done k g ≠ .spawn i g') ∧ (s'.tasks i).nextGen = (s.tasks i).nextGen ∧
            ((s'.tasks i).cur = none ∨
              ∃ c c', (s.tasks i).cur = some c ∧ (s'.tasks i).cur = some c' ∧ c'.gen = c.gen))) ∧
        ((s'.tasks i).expectSpawn = true → (s.tasks i).expectSpawn = true ∨ Obs.done k g = .start i ∨
            (Obs.done k g = .conn 2 ∧ s.listening = true ∧ (s.tasks i).registered = true ∧ (s.tasks i).opts.restart = true)) ∧
        ((s'.tasks i).registered = true → (s.tasks i).registered = true ∨ Obs.done k g = .start i) := by
      intro s' ⟨a, b, c, d, e⟩
      refine ⟨a, Or.inr ⟨by simp, b, ?_⟩, fun h => Or.inl (d ▸ h), fun h => Or.inl (e ▸ h)⟩
      rw [c]; exact keep _
    split at h
    · rename_i c hcur
      split at h
      · split at h
        · injection h with h; subst h
          by_cases hj : i = k
          · subst hj
            exact ⟨by simp, Or.inr ⟨by simp, by simp, Or.inl (by simp)⟩, by simp, by simp⟩
          · rw [upd_ne _ _ hj]
            exact ⟨rfl, Or.inr ⟨by simp, rfl, keep _⟩, fun h => Or.inl h, fun h => Or.inl h⟩
        · simp at h
      · split at h
        · injection h with h; exact fin _ (zcase _ h.symm)
        · simp at h
    · split at h
      · injection h with h; exact fin _ (zcase _ h.symm)
      · simp at h
  | snap l =>
    simp only [step?] at h
    split at h
    · injection h with h; subst h
      exact ⟨rfl, Or.inr ⟨by simp, rfl, keep _⟩, fun h => Or.inl h, fun h => Or.inl h⟩
    · simp at h

theorem upd_tasks (s : State) (k i : Nat) (f : TaskSt → TaskSt) :
    (upd s k f).tasks i = if i = k then f (s.tasks i) else s.tasks i := by
  simp [upd]

/-- `expectSpawn` is cleared only by the `spawn` observation of that task. -/
theorem expect_kept {s s' : State} {o : Obs} (h : step? s o = some s') (i : Nat)
    (he : (s.tasks i).expectSpawn = true) :
    (s'.tasks i).expectSpawn = true ∨ ∃ g, o = .spawn i g := by
  cases o with
  | start k =>
    simp only [step?] at h; split at h
    · injection h with h; subst h; rw [upd_tasks]; split <;> simp [he]
    · simp at h
  | remove k =>
    simp only [step?] at h; split at h
    · injection h with h; subst h; rw [upd_tasks]; split
      · split <;> simp [he]
      · simp [he]
    · simp at h
  | stop =>
    simp only [step?] at h; split at h
    · injection h with h; subst h; simp only; split <;> simp [he]
    · simp at h
  | begin =>
    simp only [step?] at h; split at h
    · simp at h
    · injection h with h; subst h; exact Or.inl he
  | inject c =>
    simp only [step?] at h; split at h
    · injection h with h; subst h; exact Or.inl he
    · simp at h
  | conn c =>
    simp only [step?] at h; split at h
    · injection h with h; subst h; left; simp only
      unfold connTask
      by_cases h2 : c = 2 <;> by_cases hl : s.listening = true <;>
        by_cases hr : (s.tasks i).registered = true <;>
        by_cases ho : (s.tasks i).opts.restart = true <;> simp_all
    · simp at h
  | adv t =>
    simp only [step?] at h; split at h
    · injection h with h; subst h; exact Or.inl he
    · simp at h
  | spawn k g =>
    simp only [step?] at h; split at h
    · injection h with h; subst h
      by_cases hj : i = k
      · subst hj; exact Or.inr ⟨g, rfl⟩
      · rw [upd_ne _ _ hj]; exact Or.inl he
    · simp at h
  | enter k g =>
    simp only [step?] at h; split at h
    · split at h
      · injection h with h; subst h; rw [upd_tasks]; split <;> simp [he]
      · simp at h
    · simp at h
  | exit k g =>
    simp only [step?] at h
    split at h
    · split at h
      · injection h with h; subst h; rw [upd_tasks]; split <;> simp [he]
      · split at h
        · injection h with h; subst h; rw [upd_tasks]; split <;> simp [he]
        · simp at h
    · split at h
      · injection h with h; subst h; rw [upd_tasks]; split <;> simp [he]
      · simp at h
  | done k g =>
    simp only [step?] at h
    split at h
    · split at h
      · split at h
        · injection h with h; subst h; rw [upd_tasks]; split <;> simp [he]
        · simp at h
      · split at h
        · injection h with h; subst h; rw [upd_tasks]; split <;> simp [he]
        · simp at h
    · split at h
      · injection h with h; subst h; rw [upd_tasks]; split <;> simp [he]
      · simp at h
  | snap l =>
    simp only [step?] at h; split at h
    · injection h with h; subst h; exact Or.inl he
    · simp at h

/-- Observations that the monitor accepts only when no spawn is outstanding
(`start`, `remove`, `stop`, connection delivery, quiescent snapshot). -/
def needsQuiet : Obs → Bool
  | .start _ | .remove _ | .stop | .conn _ | .snap _ => true
  | _ => false

theorem needsQuiet_quiet {s s' : State} {o : Obs} (h : step? s o = some s') (hq : needsQuiet o = true) :
    quiet s = true := by
  cases o <;> simp [needsQuiet] at hq <;> simp only [step?] at h <;> split at h <;> simp_all

def isSpawn (i : Nat) : Obs → Bool
  | .spawn k _ => k == i
  | _ => false

/-- Generations are numbered in spawn order: after an accepted trace, `nextGen` of task `i` is the
number of `spawn i _` observations so far, and a `spawn i g` is accepted only with `g` = that number. -/
theorem nextGen_counts_spawns (i : Nat) :
    ∀ (tr : List Obs) (s s' : State), run? step? s tr = some s' →
      (s'.tasks i).nextGen = (s.tasks i).nextGen + (tr.filter (isSpawn i)).length := by
  intro tr
  induction tr with
  | nil => intro s s' h; simp at h; subst h; simp
  | cons o tr ih =>
    intro s s' h
    rw [run?_cons] at h
    cases ho : step? s o with
    | none => simp [ho] at h
    | some s1 =>
      simp only [ho, Option.bind_some] at h
      have := ih s1 s' h
      obtain ⟨_, hc, _, _⟩ := step_task ho i
      rcases hc with ⟨ho', _, hn, _, _⟩ | ⟨hns, hn, _⟩
      · subst ho'
        simp only [List.filter_cons, isSpawn, beq_self_eq_true, ↓reduceIte, List.length_cons]
        omega
      · have : isSpawn i o = false := by
          cases o with
          | spawn k g =>
            simp only [isSpawn, beq_eq_false_iff_ne, ne_eq]
            intro hk; subst hk; exact hns g rfl
          | _ => simp [isSpawn]
        simp only [List.filter_cons, this]
        simp; omega

/-- everything task `i` holds now or will ever hold has a generation number ≥ `N` -/
def FreshFrom (N i : Nat) (s : State) : Prop :=
  N ≤ (s.tasks i).nextGen ∧ ∀ c, (s.tasks i).cur = some c → N ≤ c.gen

theorem freshFrom_step (N i : Nat) (s : State) (o : Obs) (s' : State)
    (hf : FreshFrom N i s) (h : step? s o = some s') : FreshFrom N i s' := by
  obtain ⟨_, hc, _, _⟩ := step_task h i
  rcases hc with ⟨_, _, hn, _, c', hc', hg⟩ | ⟨_, hn, hcur⟩
  · refine ⟨by have := hf.1; omega, ?_⟩
    intro c hc; rw [hc'] at hc; injection hc with hc; subst hc; rw [hg]; exact hf.1
  · refine ⟨by have := hf.1; omega, ?_⟩
    intro c hc
    rcases hcur with h0 | ⟨c0, c1, h0, h1, hg⟩
    · rw [h0] at hc; simp at hc
    · rw [h1] at hc; injection hc with hc; subst hc; rw [hg]; exact hf.2 c0 h0

/-- What a later observation can say about task `i` when everything it holds is fresh from `N`. -/
theorem freshFrom_obs (N i : Nat) (s s' : State) (o : Obs) (hf : FreshFrom N i s)
    (h : step? s o = some s') :
    (∀ g, o = .enter i g → N ≤ g) ∧ (∀ g, o = .spawn i g → N ≤ g) ∧
    (∀ l g, o = .snap l → (i, g) ∈ l → N ≤ g) := by
  refine ⟨?_, ?_, ?_⟩
  · intro g ho; subst ho
    simp only [step?] at h
    split at h
    · rename_i c hc
      split at h
      · rename_i hcond; rw [← hcond.1]; exact hf.2 c hc
      · simp at h
    · simp at h
  · intro g ho; subst ho
    simp only [step?] at h
    split at h
    · rename_i hcond; rw [hcond.2.2]; exact hf.1
    · simp at h
  · intro l g ho hm; subst ho
    simp only [step?] at h
    split at h
    · rename_i hcond
      rw [hcond.2.2] at hm
      simp only [liveList, List.mem_filterMap, List.mem_range, Option.map_eq_some_iff, Prod.mk.injEq] at hm
      obtain ⟨a, _, c, hc, ha, hg⟩ := hm
      subst ha; subst hg
      exact hf.2 c hc
    · simp at h

/-- Events after which the registry holds no generation of task `i`. -/
def Cancels (s : State) (o : Obs) (i : Nat) : Prop :=
  o = .start i ∨ o = .remove i ∨ o = .stop ∨
  (∃ c, o = .conn c ∧ s.listening = true ∧ (s.tasks i).opts.restart = true)

theorem cancels_cur {s s' : State} {o : Obs} {i : Nat} (hi : Inv s) (h : step? s o = some s')
    (hc : Cancels s o i) : (s'.tasks i).cur = none := by
  rcases hc with rfl | rfl | rfl | ⟨c, rfl, hl, hr⟩
  · simp only [step?] at h; split at h
    · injection h with h; subst h
      simp only [upd_same]
      split
      · simp
      · exact ((hi i).unreg (by simp_all)).1
    · simp at h
  · simp only [step?] at h; split at h
    · injection h with h; subst h
      simp only [upd_same]
      split
      · simp
      · exact ((hi i).unreg (by simp_all)).1
    · simp at h
  · simp only [step?] at h; split at h
    · injection h with h; subst h
      simp only
      split
      · simp
      · exact ((hi i).unreg (by simp_all)).1
    · simp at h
  · simp only [step?] at h; split at h
    · injection h with h; subst h
      obtain ⟨_, _, _, _, f5, f6⟩ := connTask_fields s.listening c (s.tasks i)
      simp only
      by_cases hreg : (s.tasks i).registered = true
      · exact f6 ⟨hl, hreg, hr⟩
      · exact f5 ((hi i).unreg (by simpa using hreg)).1
    · simp at h

/-- generation `g` of task `i` is inside its target (held or already cancelled) -/
def Inside (i g : Nat) (s : State) : Prop :=
  (∃ c, (s.tasks i).cur = some c ∧ c.gen = g ∧ c.inTarget = true) ∨ ⟨g, true⟩ ∈ (s.tasks i).zombies

theorem cancelCur_inside (t : TaskSt) (g : Nat)
    (h : (∃ c, t.cur = some c ∧ c.gen = g ∧ c.inTarget = true) ∨ ⟨g, true⟩ ∈ t.zombies) :
    ⟨g, true⟩ ∈ (cancelCur t).zombies := by
  unfold cancelCur
  rcases h with ⟨c, hc, hg, hin⟩ | h
  · rw [hc]; simp [← hg, ← hin]
  · split
    · exact h
    · simp [h]

theorem inside_step (i g : Nat) (s : State) (o : Obs) (s' : State) (hi : Inv s) (hw : Inside i g s)
    (hne : o ≠ .exit i g) (h : step? s o = some s') : Inside i g s' := by
  have same : ∀ k (f : TaskSt → TaskSt), k ≠ i → Inside i g (upd s k f) := by
    intro k f hk
    unfold Inside; rw [upd_ne _ _ (Ne.symm hk)]; exact hw
  have viaZ : ∀ t' : TaskSt, ⟨g, true⟩ ∈ t'.zombies →
      ((∃ c, t'.cur = some c ∧ c.gen = g ∧ c.inTarget = true) ∨ ⟨g, true⟩ ∈ t'.zombies) :=
    fun _ h => Or.inr h
  cases o with
  | start k =>
    simp only [step?] at h; split at h
    · injection h with h; subst h
      by_cases hk : k = i
      · subst hk
        unfold Inside; simp only [upd_same]
        split
        · exact Or.inr (cancelCur_inside _ g hw)
        · exact hw
      · exact same k _ hk
    · simp at h
  | remove k =>
    simp only [step?] at h; split at h
    · injection h with h; subst h
      by_cases hk : k = i
      · subst hk
        unfold Inside; simp only [upd_same]
        split
        · exact Or.inr (cancelCur_inside _ g hw)
        · exact hw
      · exact same k _ hk
    · simp at h
  | stop =>
    simp only [step?] at h; split at h
    · injection h with h; subst h
      unfold Inside; simp only
      split
      · exact Or.inr (cancelCur_inside _ g hw)
      · exact hw
    · simp at h
  | begin =>
    simp only [step?] at h; split at h
    · simp at h
    · injection h with h; subst h; exact hw
  | inject c =>
    simp only [step?] at h; split at h
    · injection h with h; subst h; exact hw
    · simp at h
  | conn c =>
    simp only [step?] at h; split at h
    · injection h with h; subst h
      unfold Inside; simp only
      -- the flag bookkeeping keeps generation and inTarget
      have hw' : ∀ t1 : TaskSt, (t1.zombies = (s.tasks i).zombies ∧
          (t1.cur = (s.tasks i).cur.map (fun k => { k with sawDisc := true }) ∨
           t1.cur = (s.tasks i).cur.map (fun k => { k with connOk := true }))) →
          ((∃ c, t1.cur = some c ∧ c.gen = g ∧ c.inTarget = true) ∨ ⟨g, true⟩ ∈ t1.zombies) := by
        intro t1 ⟨hz, hc⟩
        rcases hw with ⟨c0, hc0, hg0, hin0⟩ | hz0
        · left
          rcases hc with hc | hc <;> rw [hc, hc0] <;> simp [hg0, hin0]
        · right; rw [hz]; exact hz0
      unfold connTask
      by_cases h2 : c = 2
      · subst h2
        simp only [bne_self_eq_false, Bool.false_eq_true, ↓reduceIte, beq_self_eq_true]
        split
        · exact Or.inr (cancelCur_inside _ g (hw' _ ⟨rfl, Or.inr rfl⟩))
        · exact hw' _ ⟨rfl, Or.inr rfl⟩
      · have : (c != 2) = true := by simp [h2]
        have h2' : (c == 2) = false := by simp [h2]
        simp only [this, ↓reduceIte, h2', Bool.false_eq_true]
        split
        · exact Or.inr (cancelCur_inside _ g (hw' _ ⟨rfl, Or.inl rfl⟩))
        · exact hw' _ ⟨rfl, Or.inl rfl⟩
    · simp at h
  | adv t =>
    simp only [step?] at h; split at h
    · injection h with h; subst h; exact hw
    · simp at h
  | spawn k g' =>
    simp only [step?] at h; split at h
    · rename_i hc
      injection h with h; subst h
      by_cases hk : k = i
      · subst hk
        unfold Inside; simp only [upd_same]
        have hnone := (hi k).pending hc.2.1
        rcases hw with ⟨c0, hc0, _, _⟩ | hz
        · rw [hnone] at hc0; simp at hc0
        · exact Or.inr hz
      · exact same k _ hk
    · simp at h
  | enter k g' =>
    simp only [step?] at h; split at h
    · rename_i c hcur
      split at h
      · rename_i hcond
        injection h with h; subst h
        by_cases hk : k = i
        · subst hk
          exfalso
          rcases hw with ⟨c0, hc0, _, hin0⟩ | hz
          · rw [hcur] at hc0; injection hc0 with hc0; subst hc0
            rw [hcond.2.1] at hin0; simp at hin0
          · have := hcond.2.2.1
            rw [List.all_eq_true] at this
            have := this _ hz
            simp at this
        · exact same k _ hk
      · simp at h
    · simp at h
  | exit k g' =>
    simp only [step?] at h
    have zcase : ∀ (s' : State),
        s' = upd s k (fun t => { t with zombies := t.zombies.map fun z => if z = ⟨g', true⟩ then ⟨g', false⟩ else z }) →
        (∀ c, (s.tasks k).cur = some c → ¬ (c.gen = g' ∧ c.inTarget = true)) →
        Inside i g s' := by
      intro s' hs hnc; subst hs
      by_cases hk : k = i
      · subst hk
        have hgg : g' ≠ g := fun e => hne (by rw [e])
        unfold Inside; simp only [upd_same]
        rcases hw with hcur | hz
        · exact Or.inl hcur
        · right
          rw [List.mem_map]
          refine ⟨⟨g, true⟩, hz, ?_⟩
          have : (⟨g, true⟩ : Zombie) ≠ ⟨g', true⟩ := by
            intro e; injection e with e; exact hgg e.symm
          simp [this]
      · exact same k _ hk
    split at h
    · rename_i c hcur
      split at h
      · rename_i hcond
        injection h with h; subst h
        by_cases hk : k = i
        · subst hk
          have hgg : g' ≠ g := fun e => hne (by rw [e])
          unfold Inside; simp only [upd_same]
          rcases hw with ⟨c0, hc0, hg0, _⟩ | hz
          · rw [hcur] at hc0; injection hc0 with hc0; subst hc0
            exact absurd (hcond.1.symm.trans hg0) hgg
          · exact Or.inr hz
        · exact same k _ hk
      · rename_i hncond
        split at h
        · injection h with h
          exact zcase _ h.symm (by intro c' hc'; rw [hcur] at hc'; injection hc' with hc'; subst hc'; exact hncond)
        · simp at h
    · rename_i hnone
      split at h
      · injection h with h
        exact zcase _ h.symm (by intro c' hc'; rw [hc'] at hnone; simp at hnone)
      · simp at h
  | done k g' =>
    simp only [step?] at h
    have zcase : ∀ (s' : State),
        s' = upd s k (fun t => { t with zombies := t.zombies.erase ⟨g', false⟩ }) → Inside i g s' := by
      intro s' hs; subst hs
      by_cases hk : k = i
      · subst hk
        unfold Inside; simp only [upd_same]
        rcases hw with hcur | hz
        · exact Or.inl hcur
        · right
          have : (⟨g, true⟩ : Zombie) ≠ ⟨g', false⟩ := by
            intro e; injection e with _ e; simp at e
          exact (List.mem_erase_of_ne this).2 hz
      · exact same k _ hk
    split at h
    · rename_i c hcur
      split at h
      · rename_i hgen
        split at h
        · rename_i hfin
          injection h with h; subst h
          by_cases hk : k = i
          · subst hk
            unfold Inside; simp only [upd_same]
            rcases hw with ⟨c0, hc0, _, hin0⟩ | hz
            · rw [hcur] at hc0; injection hc0 with hc0; subst hc0
              simp [mayFinish, hin0] at hfin
            · exact Or.inr hz
          · exact same k _ hk
        · simp at h
      · split at h
        · injection h with h; exact zcase _ h.symm
        · simp at h
    · split at h
      · injection h with h; exact zcase _ h.symm
      · simp at h
  | snap l =>
    simp only [step?] at h; split at h
    · injection h with h; subst h; exact hw
    · simp at h

/-- the registry holds no generation of task `i` and none is about to be spawned -/
def Idle (i : Nat) (s : State) : Prop := (s.tasks i).cur = none ∧ (s.tasks i).expectSpawn = false

theorem idle_step (i : Nat) (s : State) (o : Obs) (s' : State) (hid : Idle i s)
    (hok : o ≠ .start i ∧ (o = .conn 2 → ¬ (s.listening = true ∧ (s.tasks i).registered = true ∧ (s.tasks i).opts.restart = true)))
    (h : step? s o = some s') : Idle i s' := by
  obtain ⟨_, hc, he, _⟩ := step_task h i
  constructor
  · rcases hc with ⟨_, hexp, _⟩ | ⟨_, _, hcur⟩
    · rw [hid.2] at hexp; simp at hexp
    · rcases hcur with h0 | ⟨c0, _, h0, _⟩
      · exact h0
      · rw [hid.1] at h0; simp at h0
  · cases hes : (s'.tasks i).expectSpawn
    · rfl
    · rcases he hes with h1 | h1 | ⟨h1, h2⟩
      · rw [hid.2] at h1; simp at h1
      · exact absurd h1 hok.1
      · exact absurd h2 (hok.2 h1)

theorem idle_obs (i : Nat) (s s' : State) (o : Obs) (hid : Idle i s) (h : step? s o = some s') :
    (∀ g, o ≠ .enter i g) ∧ (∀ g, o ≠ .spawn i g) ∧ (∀ l g, o = .snap l → (i, g) ∉ l) := by
  refine ⟨?_, ?_, ?_⟩
  · intro g ho; subst ho
    simp only [step?] at h
    rw [hid.1] at h; simp at h
  · intro g ho; subst ho
    simp only [step?] at h
    rw [hid.2] at h; simp at h
  · intro l g ho hm; subst ho
    simp only [step?] at h
    split at h
    · rename_i hcond
      rw [hcond.2.2] at hm
      simp only [liveList, List.mem_filterMap, List.mem_range, Option.map_eq_some_iff, Prod.mk.injEq] at hm
      obtain ⟨a, _, c, hc, ha, _⟩ := hm
      subst ha
      rw [hid.1] at hc; simp at hc
    · simp at h

/-- Observations the implementation produces (as opposed to calls made on it / connection deliveries
/ quiescent snapshots). -/
def isOutput : Obs → Bool
  | .spawn .. | .enter .. | .exit .. | .done .. | .adv _ | .inject _ => true
  | _ => false

theorem spawn_count_outputs (i : Nat) :
    ∀ (b : List Obs) (s s' : State), (∀ e ∈ b, isOutput e = true) → run? step? s b = some s' →
      (b.filter (isSpawn i)).length + (if (s'.tasks i).expectSpawn then 1 else 0)
        = (if (s.tasks i).expectSpawn then 1 else 0) := by
  intro b
  induction b with
  | nil => intro s s' _ h; simp at h; subst h; simp
  | cons o b ih =>
    intro s s' hall h
    rw [run?_cons] at h
    cases ho : step? s o with
    | none => simp [ho] at h
    | some s1 =>
      simp only [ho, Option.bind_some] at h
      have ih' := ih s1 s' (fun e he => hall e (by simp [he])) h
      have hout := hall o (by simp)
      obtain ⟨_, hc, he, _⟩ := step_task ho i
      rcases hc with ⟨ho', hexp, _, hexp', _⟩ | ⟨hns, _, _⟩
      · subst ho'
        simp only [List.filter_cons, isSpawn, beq_self_eq_true, ↓reduceIte, List.length_cons]
        rw [hexp'] at ih'; rw [hexp]
        simp only [Bool.false_eq_true, ↓reduceIte] at ih' ⊢; omega
      · have hsp : isSpawn i o = false := by
          cases o with
          | spawn k g =>
            simp only [isSpawn, beq_eq_false_iff_ne, ne_eq]
            intro hk; subst hk; exact hns g rfl
          | _ => simp [isSpawn]
        simp only [List.filter_cons, hsp]
        have hsame : (s1.tasks i).expectSpawn = (s.tasks i).expectSpawn := by
          cases hs : (s.tasks i).expectSpawn
          · cases hs1 : (s1.tasks i).expectSpawn
            · rfl
            · rcases he hs1 with h1 | h1 | ⟨h1, _⟩
              · rw [hs] at h1; simp at h1
              · subst h1; simp [isOutput] at hout
              · subst h1; simp [isOutput] at hout
          · rcases expect_kept ho i hs with h1 | ⟨g, h1⟩
            · exact h1
            · exact absurd h1 (hns g)
        rw [hsame] at ih'
        simpa using ih'

theorem unregistered_step (i : Nat) (s : State) (o : Obs) (s' : State)
    (hu : (s.tasks i).registered = false) (hok : o ≠ .start i) (h : step? s o = some s') :
    (s'.tasks i).registered = false := by
  obtain ⟨_, _, _, hr⟩ := step_task h i
  cases hs : (s'.tasks i).registered
  · rfl
  · rcases hr hs with h1 | h1
    · rw [hu] at h1; simp at h1
    · exact absurd h1 hok

theorem liveList_fst (s : State) :
    (liveList s).map Prod.fst = (List.range s.n).filter (fun i => (s.tasks i).cur.isSome) := by
  unfold liveList
  generalize List.range s.n = l
  induction l with
  | nil => rfl
  | cons x l ih =>
    cases hx : (s.tasks x).cur <;> simp [hx, ih]

/-- the held generation is the latest one spawned -/
def Latest (i : Nat) (s : State) : Prop := ∀ c, (s.tasks i).cur = some c → c.gen + 1 = (s.tasks i).nextGen

theorem latest_step (i : Nat) (s : State) (o : Obs) (s' : State) (hl : Latest i s)
    (h : step? s o = some s') : Latest i s' := by
  obtain ⟨_, hc, _, _⟩ := step_task h i
  intro c hcur
  rcases hc with ⟨_, _, hn, _, c', hc', hg⟩ | ⟨_, hn, hcur'⟩
  · rw [hc'] at hcur; injection hcur with hcur; subst hcur; omega
  · rcases hcur' with h0 | ⟨c0, c1, h0, h1, hg⟩
    · rw [h0] at hcur; simp at hcur
    · rw [h1] at hcur; injection hcur with hcur; subst hcur
      rw [hn, hg]; exact hl c0 h0

end XknxVerif.TaskRegistry
