/-
Lemmas about the Data Secure sender table and the receive step (for Props/C17, C18).
Core Lean only.
-/
import XknxVerif.Model.DataSecure
import XknxVerif.Automata

namespace XknxVerif.DataSecure
open XknxVerif.Generated.DataSecure (sequenceNumberMax)

theorem lookup_setVal_same (t : List (Nat × Nat)) (k v w : Nat) (h : t.lookup k = some w) :
    (setVal t k v).lookup k = some v := by
  induction t with
  | nil => simp [List.lookup] at h
  | cons e t ih =>
    obtain ⟨a, b⟩ := e
    simp only [setVal, List.map_cons]
    by_cases hk : a = k
    · subst hk; simp [List.lookup]
    · have hk' : (k == a) = false := by simp; exact fun h => hk h.symm
      simp only [List.lookup, hk, ↓reduceIte, hk'] at h ⊢
      exact ih h

theorem lookup_setVal_other (t : List (Nat × Nat)) (k k' v : Nat) (h : k' ≠ k) :
    (setVal t k v).lookup k' = t.lookup k' := by
  induction t with
  | nil => rfl
  | cons e t ih =>
    obtain ⟨a, b⟩ := e
    simp only [setVal, List.map_cons]
    by_cases hk : a = k
    · subst hk
      have : (k' == a) = false := by simp; exact h
      simp only [↓reduceIte, List.lookup, this]
      exact ih
    · simp only [hk, ↓reduceIte, List.lookup]
      cases k' == a
      · exact ih
      · rfl

theorem lookup_setVal_isSome (t : List (Nat × Nat)) (k k' v : Nat) :
    ((setVal t k v).lookup k').isSome = (t.lookup k').isSome := by
  by_cases h : k' = k
  · subst h
    cases hl : t.lookup k' with
    | none =>
      have : (setVal t k' v).lookup k' = none := by
        induction t with
        | nil => rfl
        | cons e t ih =>
          obtain ⟨a, b⟩ := e
          by_cases hk : a = k'
          · subst hk; simp [List.lookup] at hl
          · have hk' : (k' == a) = false := by simp; exact fun h => hk h.symm
            simp only [List.lookup, hk'] at hl
            simp only [setVal, List.map_cons, hk, ↓reduceIte, List.lookup, hk']
            exact ih hl
      simp [this]
    | some w => simp [lookup_setVal_same t k' v w hl]
  · rw [lookup_setVal_other t k k' v h]

/-- What one `received_cemi` call can do to the sender table and when it delivers. -/
theorem recvStep_spec (t : List (Nat × Nat)) (ev : RecvEv) :
    ((recvStep t ev).1 = t ∧ (∀ p, (recvStep t ev).2 ≠ .deliver p) ∧ (recvStep t ev).2 ≠ .dsError .inner)
    ∨ (∃ last p, ev.secure = true ∧ ev.group = true ∧ ev.keyed = true ∧ ev.svcOk = true ∧ ev.toolSb = false
        ∧ t.lookup ev.src = some last ∧ last < ev.seq ∧ ev.verify = .ok p
        ∧ (recvStep t ev).1 = setVal t ev.src ev.seq
        ∧ ((ev.innerOk = true ∧ (recvStep t ev).2 = .deliver p)
            ∨ (ev.innerOk = false ∧ (recvStep t ev).2 = .dsError .inner))) := by
  unfold recvStep
  cases h1 : ev.secure with
  | false => left; simp only [Bool.not_false, ↓reduceIte]; split <;> simp
  | true =>
  cases h2 : ev.svcOk with
  | false => left; simp
  | true =>
  cases h3 : ev.toolSb with
  | true => left; simp
  | false =>
  cases h4 : ev.group with
  | false => left; simp
  | true =>
  cases h5 : ev.keyed with
  | false => left; simp
  | true =>
  simp only [Bool.not_true, Bool.false_eq_true, ↓reduceIte]
  cases hl : t.lookup ev.src with
  | none => left; simp
  | some last =>
    simp only
    by_cases h6 : ev.seq > last
    · simp only [h6, decide_true, Bool.not_true, Bool.false_eq_true, ↓reduceIte]
      cases hv : ev.verify with
      | error e => left; cases e <;> simp
      | ok p =>
        right
        refine ⟨last, p, trivial, trivial, trivial, trivial, trivial, rfl, h6, rfl, ?_⟩
        cases h7 : ev.innerOk <;> simp
    · left; simp [h6]

end XknxVerif.DataSecure
