/-
Telegram-queue monitor: what happens between the moment the limiter starts post-processing a
telegram (`post`) and the moment it leaves it.  Core Lean only.
-/
import XknxVerif.Lemmas.TelegramQueue

namespace XknxVerif.TelegramQueue
open XknxVerif.Monitor

/-- One accepted step from a state whose limiter is post-processing telegram `t`. -/
theorem post_step {s s' : State} {o : Obs} {t : Tg} {p : Bool} {cbs : List Nat}
    (hl : s.lim = .post t p cbs) (h : step? s o = some s') :
    s'.lim = s.lim
    ∨ (∃ e, o = .proc t.k e ∧ p = true ∧ s'.lim = settlePost t false (if e then [] else cbs))
    ∨ (∃ j, o = .cb t.k j ∧ j ∈ cbs ∧ s'.lim = settlePost t p (cbs.erase j)) := by
  cases o with
  | cb k j =>
    simp only [step?] at h
    repeat' split at h
    all_goals (first | (simp at h; done) | skip)
    all_goals (injection h with h; subst h)
    all_goals (first
      | (left; rfl)
      | (right; right
         rename_i hq hc
         rw [hl] at hq
         injection hq with h1 h2 h3
         subst h1; subst h2; subst h3
         exact ⟨j, by rw [hc.1], hc.2, rfl⟩)
      | (right; right
         rename_i hq _ hc
         rw [hl] at hq
         injection hq with h1 h2 h3
         subst h1; subst h2; subst h3
         exact ⟨j, by rw [hc.1], hc.2, rfl⟩))
  | proc k e =>
    simp only [step?] at h
    repeat' split at h
    all_goals (first | (simp at h; done) | skip)
    all_goals (injection h with h; subst h)
    all_goals (first
      | (left; rfl)
      | (right; left
         rename_i hq hc
         rw [hl] at hq
         injection hq with h1 h2 h3
         subst h1; subst h2; subst h3
         exact ⟨_, by rw [hc.1], hc.2, by simp [*]⟩)
      | (right; left
         rename_i hq _ hc
         rw [hl] at hq
         injection hq with h1 h2 h3
         subst h1; subst h2; subst h3
         exact ⟨_, by rw [hc.1], hc.2, by simp [*]⟩)
      | (right; left
         rename_i hq hc _
         rw [hl] at hq
         injection hq with h1 h2 h3
         subst h1; subst h2; subst h3
         exact ⟨_, by rw [hc.1], hc.2, by simp [*]⟩)
      | (right; left
         rename_i hq _ hc _
         rw [hl] at hq
         injection hq with h1 h2 h3
         subst h1; subst h2; subst h3
         exact ⟨_, by rw [hc.1], hc.2, by simp [*]⟩))
  | _ =>
    left
    simp only [step?] at h
    repeat' split at h
    all_goals (first | (simp at h; done) | (injection h with h; subst h; rfl) | (simp_all; done))

theorem erase_eq_nil_mem {l : List Nat} {j j' : Nat} (h : l.erase j = []) (hj : j ∈ l) (hj' : j' ∈ l) : j' = j := by
  cases l with
  | nil => simp at hj
  | cons a r =>
    by_cases ha : a = j
    · subst ha
      simp only [List.erase_cons_head] at h
      subst h
      simpa using hj'
    · have : (a :: r).erase j = a :: r.erase j := by
        simp [List.erase_cons, ha]
      rw [this] at h; simp at h

/-- From `post t p cbs` to any later state that is no longer post-processing `t`: the device (if still pending)
was reached, and unless it raised, every pending callback was invoked. -/
theorem post_completes (t : Tg) :
    ∀ (b : List Obs) (s s' : State) (p : Bool) (cbs : List Nat), s.lim = .post t p cbs →
      run? step? s b = some s' → (∀ p' c', s'.lim ≠ .post t p' c') →
      (p = true → ∃ e, Obs.proc t.k e ∈ b) ∧
      ((∀ e, Obs.proc t.k e ∈ b → e = false) → ∀ j ∈ cbs, Obs.cb t.k j ∈ b) := by
  intro b
  induction b with
  | nil =>
    intro s s' p cbs hl h hfin
    simp at h; subst h
    exact absurd hl (hfin p cbs)
  | cons o b ih =>
    intro s s' p cbs hl h hfin
    rw [run?_cons] at h
    cases ho : step? s o with
    | none => simp [ho] at h
    | some s1 =>
      simp only [ho, Option.bind_some] at h
      rcases post_step hl ho with hsame | ⟨e, hoe, hp, hl1⟩ | ⟨j, hoj, hjm, hl1⟩
      · have := ih s1 s' p cbs (hsame ▸ hl) h hfin
        refine ⟨fun hp => ?_, fun hall j hj => ?_⟩
        · obtain ⟨e, he⟩ := this.1 hp; exact ⟨e, by simp [he]⟩
        · exact List.mem_cons_of_mem _ (this.2 (fun e he => hall e (List.mem_cons_of_mem _ he)) j hj)
      · subst hoe
        refine ⟨fun _ => ⟨e, by simp⟩, fun hall j hj => ?_⟩
        have he : e = false := hall e (by simp)
        subst he
        simp only [Bool.false_eq_true, ↓reduceIte] at hl1
        -- still post-processing (callbacks pending) or already closing
        unfold settlePost at hl1
        split at hl1
        · rename_i hc
          simp only [Bool.not_false, Bool.true_and, List.isEmpty_iff] at hc
          rw [hc] at hj; simp at hj
        · have := ih s1 s' false cbs hl1 h hfin
          exact List.mem_cons_of_mem _ (this.2 (fun e he => hall e (List.mem_cons_of_mem _ he)) j hj)
      · subst hoj
        unfold settlePost at hl1
        split at hl1
        · rename_i hc
          simp only [Bool.and_eq_true, Bool.not_eq_true', List.isEmpty_iff] at hc
          refine ⟨fun hp => by rw [hc.1] at hp; simp at hp, fun _ j' hj' => ?_⟩
          have := erase_eq_nil_mem hc.2 hjm hj'
          subst this; simp
        · have := ih s1 s' p (cbs.erase j) hl1 h hfin
          refine ⟨fun hp => ?_, fun hall j' hj' => ?_⟩
          · obtain ⟨e, he⟩ := this.1 hp; exact ⟨e, by simp [he]⟩
          · by_cases hjj : j' = j
            · subst hjj; simp
            · exact List.mem_cons_of_mem _ (this.2 (fun e he => hall e (List.mem_cons_of_mem _ he)) j'
                ((List.mem_erase_of_ne hjj).2 hj'))

end XknxVerif.TelegramQueue
