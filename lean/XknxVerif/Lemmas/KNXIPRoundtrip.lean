/-
Round-trip lemmas for the KNX/IP sub-structures (C21): for a well-formed value
`serialize` succeeds, yields `calcLength` octets, and `parse` of those octets
followed by anything returns the value and the number of octets written.
-/
import XknxVerif.Model.KNXIP.WF
import XknxVerif.Lemmas.KNXIPLoops

namespace XknxVerif.KNXIP
open XknxVerif.Generated.KNXIP

/-! ### evaluation lemmas -/

theorem bytesOf_ok {xs : List Nat} (h : ∀ x ∈ xs, x < 256) : bytesOf xs = .ok xs := by
  unfold bytesOf
  rw [if_pos]
  simpa using h

theorem toBytes_ok {n len : Nat} (h : n < 256 ^ len) : toBytes n len = .ok (Bytes.ofNatBE len n) := by
  unfold toBytes; rw [if_pos h]

theorem ofNatBE_two (n : Nat) : Bytes.ofNatBE 2 n = [n / 256 % 256, n % 256] := by
  simp [Bytes.ofNatBE]

theorem toBytes_two {n : Nat} (h : n < 65536) : toBytes n 2 = .ok [n / 256, n % 256] := by
  rw [toBytes_ok (by simpa using h), ofNatBE_two]
  have : n / 256 % 256 = n / 256 := by omega
  rw [this]

theorem enumOf_ok {codes : List Nat} {x : Nat} (h : x ∈ codes) : enumOf codes x = .ok x := by
  unfold enumOf; rw [if_pos h]

@[simp] theorem exceptValue_ok {α} (a : α) (h : PyM α) : exceptValue (.ok a) h = .ok a := rfl

@[simp] theorem idx_cons_zero (a : Nat) (l : Bytes) : idx (a :: l) 0 = .ok a := rfl

@[simp] theorem idx_cons_succ (a : Nat) (l : Bytes) (n : Nat) : idx (a :: l) (n + 1) = idx l n := by
  simp [idx]

@[simp] theorem ok_bind {α β} (a : α) (f : α → PyM β) : ((.ok a : PyM α) >>= f) = f a := rfl

theorem toNatBE_two (a b : Nat) : Bytes.toNatBE [a, b] = a * 256 + b := by
  simp [Bytes.toNatBE]

theorem octets_iff {b : Bytes} : octets b = true ↔ ∀ x ∈ b, x < 256 := by
  simp [octets]

theorem length_eq_four {l : Bytes} (h : l.length = 4) : ∃ a b c d, l = [a, b, c, d] := by
  match l, h with
  | [a, b, c, d], _ => exact ⟨a, b, c, d, rfl⟩

/-- every member code of these enums is one octet -/
theorem hostProtocol_lt : ∀ x ∈ HostProtocol.codes, x < 256 := by decide
theorem connectRequestType_lt : ∀ x ∈ ConnectRequestType.codes, x < 256 := by decide
theorem tunnellingLayer_lt : ∀ x ∈ TunnellingLayer.codes, x < 256 := by decide
theorem dibTypeCode_lt : ∀ x ∈ DIBTypeCode.codes, x < 256 := by decide
theorem knxMedium_lt : ∀ x ∈ KNXMedium.codes, x < 256 := by decide
theorem dibServiceFamily_lt : ∀ x ∈ DIBServiceFamily.codes, x < 256 := by decide
theorem errorCode_lt : ∀ x ∈ ErrorCode.codes, x < 256 := by decide
theorem featureType_lt : ∀ x ∈ TunnellingFeatureType.codes, x < 256 := by decide
theorem returnCode_lt : ∀ x ∈ ReturnCode.codes, x < 256 := by decide
theorem sessionStatus_lt : ∀ x ∈ SecureSessionStatusCode.codes, x < 256 := by decide
theorem srpType_lt : ∀ x ∈ SRPType.codes, x < 128 := by decide
theorem serviceType_lt : ∀ x ∈ ServiceType.codes, x < 65536 := by decide

/-- closes `(if <false length guard> then … else .ok v') = .ok v` goals left by `simp` -/
macro "fin_rt" : tactic => `(tactic| ((repeat (rw [if_neg (by omega)])); (try simp only [Nat.div_add_mod'])))

/-! ### HPAI -/

theorem HPAI.roundtrip (h : HPAI) (hw : h.wf = true) :
    ∃ bs, h.serialize = .ok bs ∧ bs.length = Const.hpaiLength ∧
      ∀ rest, HPAI.parse (bs ++ rest) = .ok (h, Const.hpaiLength) := by
  obtain ⟨proto, ip, port⟩ := h
  simp only [HPAI.wf, Bool.and_eq_true, decide_eq_true_eq, beq_iff_eq, octets_iff] at hw
  obtain ⟨⟨⟨hp, hl⟩, hip⟩, hport⟩ := hw
  obtain ⟨a, b, c, d, rfl⟩ := length_eq_four hl
  have hp256 := hostProtocol_lt proto hp
  have hall : ([a, b, c, d] : Bytes).all (· < 256) = true := by simpa using hip
  refine ⟨[Const.hpaiLength, proto, a, b, c, d, port / 256, port % 256], ?_, rfl, ?_⟩
  · unfold HPAI.serialize
    rw [bytesOf_ok (by intro x hx; simp [Const.hpaiLength] at hx; rcases hx with rfl | rfl <;> omega)]
    simp only [inetAton, hall, toBytes_two hport, ok_bind, List.length_cons, List.length_nil, and_self, ↓reduceIte]
    rfl
  · intro rest
    unfold HPAI.parse
    simp only [List.cons_append, List.nil_append, List.length_cons, idx_cons_zero, idx_cons_succ, ok_bind,
      enumOf_ok hp, exceptValue_ok, Bytes.slice, inetNtoa]
    simp [Const.hpaiLength]
    rw [if_neg (by omega), Nat.div_add_mod']

/-! ### CRI / CRD -/

theorem CRI.roundtrip (c : CRI) (hw : c.wf = true) :
    ∃ bs, c.serialize = .ok bs ∧ bs.length = c.calcLength ∧
      ∀ rest, CRI.parse (bs ++ rest) = .ok (c, c.calcLength) := by
  obtain ⟨ct, layer, ia⟩ := c
  simp only [CRI.wf, Bool.and_eq_true, decide_eq_true_eq] at hw
  obtain ⟨hct, hw⟩ := hw
  have hct256 := connectRequestType_lt ct hct
  by_cases ht : ct = ConnectRequestType.tunnel_connection
  · subst ht
    simp only [CRI.isTunnel, beq_self_eq_true, ↓reduceIte, Bool.and_eq_true, decide_eq_true_eq] at hw
    obtain ⟨hl, ha⟩ := hw
    have hl256 := tunnellingLayer_lt layer hl
    cases ia with
    | none =>
      refine ⟨[Const.criTunnelLength, ConnectRequestType.tunnel_connection, layer, 0], ?_, ?_, ?_⟩
      · unfold CRI.serialize
        simp only [CRI.calcLength, CRI.isTunnel, beq_self_eq_true, ↓reduceIte, Option.isSome_none,
          Bool.false_eq_true]
        rw [bytesOf_ok (by intro x hx; simp [Const.criTunnelLength] at hx; rcases hx with rfl | rfl <;> omega),
          ok_bind, bytesOf_ok (by intro x hx; simp at hx; rcases hx with rfl | rfl <;> omega)]
        rfl
      · simp [CRI.calcLength, CRI.isTunnel, Const.criLength, Const.criTunnelLength, Const.criTunnelExtLength, Const.crdLength, Const.crdTunnelLength, ConnectRequestType.tunnel_connection]
      · intro rest
        unfold CRI.parse
        simp only [List.cons_append, List.nil_append, List.length_cons, idx_cons_zero, idx_cons_succ, ok_bind,
          enumOf_ok hct, enumOf_ok hl, exceptValue_ok]
        simp [Const.criLength, Const.criTunnelLength, Const.criTunnelExtLength, CRI.calcLength, CRI.isTunnel]
        fin_rt
    | some a =>
      simp only [optAddr, decide_eq_true_eq] at ha
      refine ⟨[Const.criTunnelExtLength, ConnectRequestType.tunnel_connection, layer, 0, a / 256, a % 256], ?_, ?_, ?_⟩
      · unfold CRI.serialize
        simp only [CRI.calcLength, CRI.isTunnel, beq_self_eq_true, ↓reduceIte, Option.isSome_some]
        rw [bytesOf_ok (by intro x hx; simp [Const.criTunnelExtLength] at hx; rcases hx with rfl | rfl <;> omega),
          ok_bind, bytesOf_ok (by intro x hx; simp at hx; rcases hx with rfl | rfl <;> omega)]
        simp only [ok_bind, toBytes_two ha]
        rfl
      · simp [CRI.calcLength, CRI.isTunnel, Const.criLength, Const.criTunnelLength, Const.criTunnelExtLength, Const.crdLength, Const.crdTunnelLength, ConnectRequestType.tunnel_connection]
      · intro rest
        unfold CRI.parse
        simp only [List.cons_append, List.nil_append, List.length_cons, idx_cons_zero, idx_cons_succ, ok_bind,
          enumOf_ok hct, enumOf_ok hl, exceptValue_ok]
        simp [Const.criLength, Const.criTunnelLength, Const.criTunnelExtLength, CRI.calcLength, CRI.isTunnel,
          Bytes.slice, toNatBE_two]
        fin_rt
  · have hnt : (ct == ConnectRequestType.tunnel_connection) = false := by simpa using ht
    simp only [CRI.isTunnel, hnt, Bool.false_eq_true, ↓reduceIte, Bool.and_eq_true, beq_iff_eq,
      Option.isNone_iff_eq_none] at hw
    obtain ⟨rfl, rfl⟩ := hw
    refine ⟨[Const.criLength, ct], ?_, ?_, ?_⟩
    · unfold CRI.serialize
      simp only [CRI.calcLength, CRI.isTunnel, hnt, Bool.false_eq_true, ↓reduceIte]
      rw [bytesOf_ok (by intro x hx; simp [Const.criLength] at hx; rcases hx with rfl | rfl <;> omega)]
      rfl
    · simp [CRI.calcLength, CRI.isTunnel, hnt, Const.criLength]
    · intro rest
      unfold CRI.parse
      simp only [List.cons_append, List.nil_append, List.length_cons, idx_cons_zero, idx_cons_succ, ok_bind,
        enumOf_ok hct, exceptValue_ok]
      simp [Const.criLength, CRI.calcLength, CRI.isTunnel, hnt, ht]
      fin_rt

theorem CRD.roundtrip (c : CRD) (hw : c.wf = true) :
    ∃ bs, c.serialize = .ok bs ∧ bs.length = c.calcLength ∧
      ∀ rest, CRD.parse (bs ++ rest) = .ok (c, c.calcLength) := by
  obtain ⟨rt, ia⟩ := c
  simp only [CRD.wf, Bool.and_eq_true, decide_eq_true_eq] at hw
  obtain ⟨hrt, hw⟩ := hw
  have hrt256 := connectRequestType_lt rt hrt
  by_cases ht : rt = ConnectRequestType.tunnel_connection
  · subst ht
    simp only [CRD.isTunnel, beq_self_eq_true, ↓reduceIte, Bool.and_eq_true] at hw
    obtain ⟨hs, ha⟩ := hw
    cases ia with
    | none => simp at hs
    | some a =>
      simp only [optAddr, decide_eq_true_eq] at ha
      refine ⟨[Const.crdTunnelLength, ConnectRequestType.tunnel_connection, a / 256, a % 256], ?_, ?_, ?_⟩
      · unfold CRD.serialize
        simp only [CRD.calcLength, CRD.isTunnel, beq_self_eq_true, ↓reduceIte]
        rw [bytesOf_ok (by intro x hx; simp [Const.crdTunnelLength] at hx; rcases hx with rfl | rfl <;> omega)]
        simp only [ok_bind, toBytes_two ha]
        rfl
      · simp [CRD.calcLength, CRD.isTunnel, Const.criLength, Const.criTunnelLength, Const.criTunnelExtLength, Const.crdLength, Const.crdTunnelLength, ConnectRequestType.tunnel_connection]
      · intro rest
        unfold CRD.parse
        simp only [List.cons_append, List.nil_append, List.length_cons, idx_cons_zero, idx_cons_succ, ok_bind,
          enumOf_ok hrt, exceptValue_ok]
        simp [Const.crdLength, Const.crdTunnelLength, CRD.calcLength, CRD.isTunnel, Bytes.slice, toNatBE_two]
        fin_rt
  · have hnt : (rt == ConnectRequestType.tunnel_connection) = false := by simpa using ht
    simp only [CRD.isTunnel, hnt, Bool.false_eq_true, ↓reduceIte, Option.isNone_iff_eq_none] at hw
    subst hw
    refine ⟨[Const.crdLength, rt], ?_, ?_, ?_⟩
    · unfold CRD.serialize
      simp only [CRD.calcLength, CRD.isTunnel, hnt, Bool.false_eq_true, ↓reduceIte]
      rw [bytesOf_ok (by intro x hx; simp [Const.crdLength] at hx; rcases hx with rfl | rfl <;> omega)]
      rfl
    · simp [CRD.calcLength, CRD.isTunnel, hnt, Const.crdLength]
    · intro rest
      unfold CRD.parse
      simp only [List.cons_append, List.nil_append, List.length_cons, idx_cons_zero, idx_cons_succ, ok_bind,
        enumOf_ok hrt, exceptValue_ok]
      simp [Const.crdLength, CRD.calcLength, CRD.isTunnel, hnt, ht]
      fin_rt

/-! ### DIB -/

theorem take_append_length {α} (a b : List α) : List.take a.length (a ++ b) = a := by
  simp

theorem slice_cons2 (a b : Nat) (d r : Bytes) : Bytes.slice (a :: b :: (d ++ r)) 2 (d.length + 2) = d := by
  simp [Bytes.slice]

theorem mapM_ok {α β} (f : α → PyM β) (g : α → β) (l : List α) (h : ∀ x ∈ l, f x = .ok (g x)) :
    l.mapM f = .ok (l.map g) := by
  induction l with
  | nil => rfl
  | cons x xs ih =>
    rw [List.mapM_cons, h x (List.mem_cons_self), ih (fun y hy => h y (List.mem_cons_of_mem _ hy))]
    rfl

theorem DIB.roundtrip_generic (dtc : Nat) (data : Bytes) (hw : (DIB.generic dtc data).wf = true) :
    ∃ bs, (DIB.generic dtc data).serialize = .ok bs ∧ bs.length = (DIB.generic dtc data).calcLength ∧ 2 ≤ bs.length ∧
      ∀ rest, DIB.parse (bs ++ rest) = .ok (.generic dtc data, (DIB.generic dtc data).calcLength) := by
  simp only [DIB.wf, Bool.and_eq_true, decide_eq_true_eq, beq_iff_eq, octets_iff] at hw
  obtain ⟨⟨⟨⟨hc, hnd⟩, hoct⟩, heven⟩, hlen⟩ := hw
  have hd256 := dibTypeCode_lt dtc hc
  have hcalc : (DIB.generic dtc data).calcLength = data.length + 2 := by
    simp only [DIB.calcLength, Const.dibHeaderLength]; omega
  refine ⟨(data.length + 2) :: dtc :: data, ?_, ?_, ?_, ?_⟩
  · simp only [DIB.serialize]
    rw [enumOf_ok hc, exceptValue_ok, ok_bind, hcalc,
      bytesOf_ok (by intro x hx; simp at hx; rcases hx with rfl | rfl <;> omega), ok_bind, heven]
    simp
  · rw [hcalc]; simp
  · simp
  · intro rest
    unfold DIB.parse
    simp only [List.cons_append, List.length_cons, idx_cons_zero, idx_cons_succ, ok_bind]
    rw [if_neg (by omega)]
    simp only [dedicatedDibCodes, List.mem_cons, List.not_mem_nil, or_false, not_or] at hnd
    rw [if_neg (by simpa using hc), if_neg hnd.1, if_neg hnd.2.1, if_neg hnd.2.2.1, if_neg hnd.2.2.2]
    unfold DIB.parseGeneric
    simp only [List.length_cons, idx_cons_zero, idx_cons_succ, ok_bind, Const.dibHeaderLength, List.length_append]
    rw [if_neg (by omega), if_neg (by omega), slice_cons2, hcalc]

theorem familyLoop_flat (pre : Bytes) (fams : List (Nat × Nat))
    (hf : ∀ f ∈ fams, f.1 ∈ DIBServiceFamily.codes) (rest : Bytes) :
    DIB.familyLoop (pre ++ ((fams.map (fun f => [f.1, f.2])).flatten ++ rest)) pre.length fams.length = .ok fams := by
  induction fams generalizing pre with
  | nil => rfl
  | cons f fs ih =>
    have hidx0 : idx (pre ++ (f.1 :: f.2 :: ((fs.map (fun f => [f.1, f.2])).flatten ++ rest))) pre.length = .ok f.1 := by
      simp [idx]
    have hidx1 : idx (pre ++ (f.1 :: f.2 :: ((fs.map (fun f => [f.1, f.2])).flatten ++ rest))) (pre.length + 1) = .ok f.2 := by
      simp [idx, List.getElem?_append_right]
    simp only [List.map_cons, List.flatten_cons, List.cons_append, List.nil_append, List.length_cons]
    unfold DIB.familyLoop
    rw [hidx0, hidx1]
    simp only [ok_bind, enumOf_ok (hf f (List.mem_cons_self)), exceptValue_ok]
    have := ih (pre ++ [f.1, f.2]) (fun g hg => hf g (List.mem_cons_of_mem _ hg))
    simp only [List.append_assoc, List.cons_append, List.nil_append, List.length_append, List.length_cons,
      List.length_nil] at this
    rw [this]
    rfl

theorem familiesCode_lt (s : Bool) : familiesCode s < 256 := by
  cases s <;> decide

theorem DIB.roundtrip_families (sec : Bool) (fams : List (Nat × Nat)) (hw : (DIB.families sec fams).wf = true) :
    ∃ bs, (DIB.families sec fams).serialize = .ok bs ∧ bs.length = (DIB.families sec fams).calcLength ∧ 2 ≤ bs.length ∧
      ∀ rest, DIB.parse (bs ++ rest) = .ok (.families sec fams, (DIB.families sec fams).calcLength) := by
  simp only [DIB.wf, Bool.and_eq_true, decide_eq_true_eq, List.all_eq_true] at hw
  obtain ⟨hall, hlen⟩ := hw
  have hflat : ((fams.map (fun f => [f.1, f.2])).flatten).length = fams.length * 2 := by
    induction fams with
    | nil => rfl
    | cons f fs ih =>
      simp only [List.map_cons, List.flatten_cons, List.length_append, List.length_cons, List.length_nil]
      rw [ih (fun x hx => hall x (List.mem_cons_of_mem _ hx)) (by simp only [List.length_cons] at hlen; omega)]
      omega
  have hcalc : (DIB.families sec fams).calcLength = fams.length * 2 + 2 := by
    simp only [DIB.calcLength, Const.dibHeaderLength]
  refine ⟨(fams.length * 2 + 2) :: familiesCode sec :: (fams.map (fun f => [f.1, f.2])).flatten, ?_, ?_, ?_, ?_⟩
  · simp only [DIB.serialize]
    have := familiesCode_lt sec
    rw [hcalc, bytesOf_ok (by intro x hx; simp at hx; rcases hx with rfl | rfl <;> omega), ok_bind,
      mapM_ok _ (fun f => [f.1, f.2]) fams (by
        intro f hf
        have := hall f hf
        have := dibServiceFamily_lt f.1 this.1
        exact bytesOf_ok (by intro x hx; simp at hx; rcases hx with rfl | rfl <;> omega))]
    rfl
  · rw [hcalc]; simp [hflat]
  · simp
  · intro rest
    have hcode : familiesCode sec ∈ DIBTypeCode.codes := by cases sec <;> decide
    unfold DIB.parse
    simp only [List.cons_append, List.length_cons, idx_cons_zero, idx_cons_succ, ok_bind]
    rw [if_neg (by omega), if_neg (by simpa using hcode)]
    have hfam : ∀ rest', DIB.parseFamilies sec
        ((fams.length * 2 + 2) :: familiesCode sec :: ((fams.map (fun f => [f.1, f.2])).flatten ++ rest')) =
        .ok (.families sec fams, (DIB.families sec fams).calcLength) := by
      intro rest'
      unfold DIB.parseFamilies
      simp only [List.length_cons, idx_cons_zero, idx_cons_succ, ok_bind, Const.dibHeaderLength,
        List.length_append, hflat]
      rw [if_neg (by omega), if_neg (by omega), if_neg (by simp)]
      have hn : (fams.length * 2 + 2 - 2 + 1) / 2 = fams.length := by omega
      rw [hn]
      have := familyLoop_flat [fams.length * 2 + 2, familiesCode sec] fams (by
        intro f hf
        exact (hall f hf).1) rest'
      simp only [List.cons_append, List.nil_append, List.length_cons, List.length_nil] at this
      rw [this, hcalc]
      rfl
    cases sec with
    | false =>
      rw [if_neg (by decide), if_pos (by rfl)]
      rw [hfam]
    | true =>
      rw [if_neg (by decide), if_neg (by decide), if_pos (by rfl)]
      rw [hfam]

def slotBytes (s : Nat × SlotStatus) : Bytes := [s.1 / 256, s.1 % 256, 0, s.2.toOctet]

theorem SlotStatus.roundtrip (s : SlotStatus) : SlotStatus.ofOctet s.toOctet = s := by
  obtain ⟨u, a, f⟩ := s
  cases u <;> cases a <;> cases f <;> decide

theorem SlotStatus.toOctet_lt (s : SlotStatus) : s.toOctet < 256 := by
  obtain ⟨u, a, f⟩ := s
  cases u <;> cases a <;> cases f <;> decide

theorem dictSet_append {β} (acc : List (Nat × β)) (k : Nat) (v : β) (h : k ∉ acc.map (·.1)) :
    dictSet acc k v = acc ++ [(k, v)] := by
  induction acc with
  | nil => rfl
  | cons x xs ih =>
    simp only [List.map_cons, List.mem_cons, not_or] at h
    simp only [dictSet, List.cons_append]
    rw [if_neg (fun e => h.1 e.symm), ih h.2]

theorem slice_after_pre (pre x : Bytes) (n : Nat) : Bytes.slice (pre ++ x) pre.length (pre.length + n) = x.take n := by
  simp [Bytes.slice, List.take_append]

theorem slotLoop_flat (pre : Bytes) (slots : List (Nat × SlotStatus)) (acc : List (Nat × SlotStatus))
    (ha : ∀ s ∈ slots, s.1 < 65536) (hnd : (acc.map (·.1) ++ slots.map (·.1)).Nodup) (rest : Bytes) :
    DIB.slotLoop (pre ++ ((slots.map slotBytes).flatten ++ rest)) pre.length slots.length acc = .ok (acc ++ slots) := by
  induction slots generalizing pre acc with
  | nil => simp [DIB.slotLoop]
  | cons s ss ih =>
    have hidx : idx (pre ++ (s.1 / 256 :: s.1 % 256 :: 0 :: s.2.toOctet :: ((ss.map slotBytes).flatten ++ rest)))
        (pre.length + 3) = .ok s.2.toOctet := by
      simp [idx, List.getElem?_append_right]
    have hs := ha s (List.mem_cons_self)
    have hnotin : s.1 ∉ acc.map (·.1) := by
      intro hin
      have := List.nodup_append.mp hnd
      exact this.2.2 s.1 hin s.1 (by simp) rfl
    simp only [List.map_cons, List.flatten_cons, slotBytes, List.cons_append, List.nil_append, List.length_cons]
    unfold DIB.slotLoop
    rw [hidx, ok_bind, slice_after_pre]
    simp only [List.take_succ_cons, List.take_zero, toNatBE_two, Nat.div_add_mod', SlotStatus.roundtrip]
    rw [dictSet_append _ _ _ hnotin]
    have := ih (pre ++ [s.1 / 256, s.1 % 256, 0, s.2.toOctet]) (acc ++ [(s.1, s.2)])
      (fun x hx => ha x (List.mem_cons_of_mem _ hx)) (by simpa [List.append_assoc] using hnd)
    simp only [List.append_assoc, List.cons_append, List.nil_append, List.length_append, List.length_cons,
      List.length_nil, slotBytes] at this
    rw [this]

theorem DIB.roundtrip_tunnelingInfo (maxApdu : Nat) (slots : List (Nat × SlotStatus))
    (hw : (DIB.tunnelingInfo maxApdu slots).wf = true) :
    ∃ bs, (DIB.tunnelingInfo maxApdu slots).serialize = .ok bs ∧
      bs.length = (DIB.tunnelingInfo maxApdu slots).calcLength ∧ 2 ≤ bs.length ∧
      ∀ rest, DIB.parse (bs ++ rest) =
        .ok (.tunnelingInfo maxApdu slots, (DIB.tunnelingInfo maxApdu slots).calcLength) := by
  simp only [DIB.wf, Bool.and_eq_true, decide_eq_true_eq, List.all_eq_true] at hw
  obtain ⟨⟨⟨hapdu, haddr⟩, hnd⟩, hlen⟩ := hw
  have hflat : ((slots.map slotBytes).flatten).length = slots.length * 4 := by
    clear haddr hnd hlen
    induction slots with
    | nil => rfl
    | cons f fs ih =>
      simp only [List.map_cons, List.flatten_cons, List.length_append, slotBytes, List.length_cons, List.length_nil]
      rw [ih]
      omega
  have hcalc : (DIB.tunnelingInfo maxApdu slots).calcLength = slots.length * 4 + 4 := by
    simp only [DIB.calcLength]; omega
  refine ⟨(slots.length * 4 + 4) :: DIBTypeCode.tunneling_info :: maxApdu / 256 :: maxApdu % 256 ::
    (slots.map slotBytes).flatten, ?_, ?_, ?_, ?_⟩
  · simp only [DIB.serialize]
    rw [hcalc, bytesOf_ok (by intro x hx; simp [DIBTypeCode.tunneling_info] at hx; rcases hx with rfl | rfl <;> omega),
      ok_bind, toBytes_two hapdu, ok_bind,
      mapM_ok _ slotBytes slots (by
        intro s hs
        rw [toBytes_two (haddr s hs)]
        rfl)]
    rfl
  · rw [hcalc]; simp [hflat]
  · simp
  · intro rest
    unfold DIB.parse
    simp only [List.cons_append, List.length_cons, idx_cons_zero, idx_cons_succ, ok_bind]
    rw [if_neg (by omega), if_neg (by decide), if_neg (by decide), if_neg (by decide), if_neg (by decide),
      if_pos (by trivial)]
    unfold DIB.parseTunnelingInfo
    simp only [List.length_cons, idx_cons_zero, idx_cons_succ, ok_bind, List.length_append, hflat]
    rw [if_neg (by omega), if_neg (by omega), if_neg (by simp)]
    have hn : (slots.length * 4 + 4 - 4 + 3) / 4 = slots.length := by omega
    rw [hn]
    have := slotLoop_flat [slots.length * 4 + 4, DIBTypeCode.tunneling_info, maxApdu / 256, maxApdu % 256] slots []
      haddr (by simpa using hnd) rest
    simp only [List.cons_append, List.nil_append, List.length_cons, List.length_nil] at this
    rw [this, hcalc]
    simp [Bytes.slice, toNatBE_two, Nat.div_add_mod']

theorem length_eq_six {l : Bytes} (h : l.length = 6) : ∃ a b c d e f, l = [a, b, c, d, e, f] := by
  match l, h with
  | [a, b, c, d, e, f], _ => exact ⟨a, b, c, d, e, f, rfl⟩

theorem dropWhile_replicate_zero (k : Nat) (l : Bytes) :
    (List.replicate k 0 ++ l).dropWhile (· == 0) = l.dropWhile (· == 0) := by
  induction k with
  | zero => rfl
  | succ n ih => simp [List.replicate_succ, List.dropWhile_cons, ih]

theorem rstripZeros_pad (name : Bytes) (h : name.getLast? ≠ some 0) (k : Nat) :
    rstripZeros (name ++ List.replicate k 0) = name := by
  unfold rstripZeros
  rw [List.reverse_append, List.reverse_replicate, dropWhile_replicate_zero]
  have : name.reverse.dropWhile (· == 0) = name.reverse := by
    cases hr : name.reverse with
    | nil => rfl
    | cons x xs =>
      have hx : name.getLast? = some x := by
        rw [List.getLast?_eq_head?_reverse, hr]; rfl
      have : x ≠ 0 := by
        intro hx0; subst hx0; exact h hx
      simp [List.dropWhile_cons, this]
  rw [this, List.reverse_reverse]

theorem ipi_project (p i : Nat) (hi : i < 16) : (p * 16 + i) >>> 4 = p := by
  rw [Nat.shiftRight_eq_div_pow]; omega

theorem ipi_installation (p i : Nat) (hi : i < 16) : (p * 16 + i) &&& 15 = i := by
  have : (15 : Nat) = 2 ^ 4 - 1 := by decide
  rw [this, Nat.and_two_pow_sub_one_eq_mod]; omega

theorem natOfBool_ne_zero (b : Bool) : (natOfBool b != 0) = b := by
  cases b <;> rfl

theorem natOfBool_lt (b : Bool) : natOfBool b < 256 := by
  cases b <;> decide

theorem take_pad {pad rest : Bytes} (h : pad.length = 30) : List.take 30 (pad ++ rest) = pad := by
  rw [← h, take_append_length]

theorem DIB.roundtrip_deviceInfo (medium : Nat) (prog : Bool) (ia project inst : Nat) (serial mcast mac name : Bytes)
    (hw : (DIB.deviceInfo medium prog ia project inst serial mcast mac name).wf = true) :
    ∃ bs, (DIB.deviceInfo medium prog ia project inst serial mcast mac name).serialize = .ok bs ∧
      bs.length = (DIB.deviceInfo medium prog ia project inst serial mcast mac name).calcLength ∧ 2 ≤ bs.length ∧
      ∀ rest, DIB.parse (bs ++ rest) = .ok (.deviceInfo medium prog ia project inst serial mcast mac name,
        (DIB.deviceInfo medium prog ia project inst serial mcast mac name).calcLength) := by
  simp only [DIB.wf, Bool.and_eq_true, decide_eq_true_eq, beq_iff_eq, octets_iff, bne_iff_ne, ne_eq] at hw
  obtain ⟨⟨⟨⟨⟨⟨⟨⟨⟨⟨⟨⟨hmed, hia⟩, hproj⟩, hinst⟩, hsl⟩, hso⟩, hml⟩, hmo⟩, hmacl⟩, hmaco⟩, hnl⟩, hno⟩, hlast⟩ := hw
  obtain ⟨s0, s1, s2, s3, s4, s5, rfl⟩ := length_eq_six hsl
  obtain ⟨m0, m1, m2, m3, m4, m5, rfl⟩ := length_eq_six hmacl
  obtain ⟨c0, c1, c2, c3, rfl⟩ := length_eq_four hml
  have hmed256 := knxMedium_lt medium hmed
  have hprog := natOfBool_lt prog
  have hipi : project * 16 + inst < 65536 := by omega
  have htake : name.take 30 = name := List.take_of_length_le hnl
  have hpadlen : (ljustZeros name 30).length = 30 := by
    simp only [ljustZeros, List.length_append, List.length_replicate]; omega
  have hmcall : ([c0, c1, c2, c3] : Bytes).all (· < 256) = true := by simpa using hmo
  have hnall : name.all (· < 256) = true := by simpa using hno
  refine ⟨[Const.dibDeviceInfoLength, DIBTypeCode.device_info, medium, natOfBool prog, ia / 256, ia % 256,
      (project * 16 + inst) / 256, (project * 16 + inst) % 256, s0, s1, s2, s3, s4, s5, c0, c1, c2, c3,
      m0, m1, m2, m3, m4, m5] ++ ljustZeros name 30, ?_, ?_, ?_, ?_⟩
  · simp only [DIB.serialize]
    rw [toBytes_two hipi, ok_bind,
      bytesOf_ok (by
        intro x hx
        simp [Const.dibDeviceInfoLength, DIBTypeCode.device_info] at hx
        rcases hx with rfl | rfl | rfl | rfl <;> omega),
      ok_bind, toBytes_two hia, ok_bind]
    simp only [inetAton, hmcall, htake, hnall, List.length_cons, List.length_nil, and_self, ↓reduceIte, ok_bind]
    rfl
  · simp [DIB.calcLength, Const.dibDeviceInfoLength, hpadlen]
  · simp
  · intro rest
    unfold DIB.parse
    simp only [List.cons_append, List.nil_append, List.length_cons, idx_cons_zero, idx_cons_succ, ok_bind]
    rw [if_neg (by omega), if_neg (by decide), if_pos (by trivial)]
    unfold DIB.parseDeviceInfo
    simp only [List.length_cons, List.length_append, hpadlen, idx_cons_zero, idx_cons_succ, ok_bind,
      enumOf_ok hmed, exceptValue_ok, Const.dibDeviceInfoLength]
    rw [if_neg (by omega), if_neg (by decide), if_neg (by decide)]
    simp only [Bytes.slice, inetNtoa, List.take_succ_cons, List.drop_succ_cons, List.drop_zero, List.take_zero,
      List.length_cons, List.length_nil, ↓reduceIte, ok_bind, toNatBE_two, Nat.div_add_mod', take_pad hpadlen,
      ipi_project _ _ hinst, ipi_installation _ _ hinst, natOfBool_ne_zero, DIB.calcLength,
      Const.dibDeviceInfoLength]
    rw [show ljustZeros name 30 = name ++ List.replicate (30 - name.length) 0 from rfl, rstripZeros_pad _ hlast]

end XknxVerif.KNXIP
