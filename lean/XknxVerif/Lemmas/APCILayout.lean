/-
Generic theorems about the APCI layout library (`Model/APCI/Layout.lean`):
per-field and per-field-list round trips, proved once for all service rows.
Core Lean only.
-/
import XknxVerif.Model.APCI.Layout

namespace XknxVerif.APCI

theorem split_some {w : Nat} {bits a r : Bits} (h : split w bits = some (a, r)) :
    bits = a ++ r ∧ a.length = w := by
  unfold split at h
  split at h
  · injection h with h; injection h with h1 h2
    subst h1; subst h2
    exact ⟨(List.take_append_drop w bits).symm, by simp; omega⟩
  · cases h

theorem split_append {w : Nat} (a r : Bits) (h : a.length = w) : split w (a ++ r) = some (a, r) := by
  unfold split
  have : w ≤ (a ++ r).length := by simp; omega
  rw [if_pos this, List.take_left' h, List.drop_left' h]

/-- What the field following a greedy field must look like. -/
def TailOK : Field → Bits → Prop
  | .bytesRest, rest | .bitWrite, rest => rest = []
  | .bytesLeave k, rest => rest.length = 8 * k
  | _, _ => True

def Field1WF : Field → Prop
  | .const w v => v < 2 ^ w
  | .uint w _ hi => hi < 2 ^ w
  | .enum w tbl => ∀ x ∈ tbl, x < 2 ^ w
  | _ => True

theorem int_toNat_lt {i : Int} {hi w : Nat} (h0 : 0 ≤ i) (h1 : i ≤ (hi : Int)) (h2 : hi < 2 ^ w) :
    i.toNat < 2 ^ w := by omega

/-- One field: what the encoder emits, the decoder reads back. -/
theorem decode1_encode1 (f : Field) (hf : Field1WF f) (vs vs' : List Val) (b : Bits)
    (h : encode1 f vs = some (b, vs')) :
    ∃ used, vs = used ++ vs' ∧ ∀ rest, TailOK f rest → decode1 f (b ++ rest) = some (used, rest) := by
  cases f with
  | const w v =>
    simp only [encode1, Option.some.injEq, Prod.mk.injEq] at h
    obtain ⟨rfl, rfl⟩ := h
    refine ⟨[], rfl, fun rest _ => ?_⟩
    simp only [decode1, split_append _ rest (Bits.ofNat_length w v), Bits.toNat_ofNat w v hf, if_true]
  | reserved w =>
    simp only [encode1, Option.some.injEq, Prod.mk.injEq] at h
    obtain ⟨rfl, rfl⟩ := h
    refine ⟨[], rfl, fun rest _ => ?_⟩
    simp only [decode1, split_append _ rest (List.length_replicate ..)]
  | uint w lo hi =>
    match vs, h with
    | .int i :: vs0, h =>
      simp only [encode1] at h
      split at h
      · rename_i hr
        simp only [Option.some.injEq, Prod.mk.injEq] at h
        obtain ⟨rfl, rfl⟩ := h
        refine ⟨[.int i], rfl, fun rest _ => ?_⟩
        have h0 : 0 ≤ i := by omega
        have hlt := int_toNat_lt h0 hr.2 hf
        simp only [decode1, split_append _ rest (Bits.ofNat_length w _), Bits.toNat_ofNat w _ hlt,
          Int.toNat_of_nonneg h0]
      · cases h
  | flag =>
    match vs, h with
    | .flag c :: vs0, h =>
      simp only [encode1, Option.some.injEq, Prod.mk.injEq] at h
      obtain ⟨rfl, rfl⟩ := h
      refine ⟨[.flag c], rfl, fun rest _ => ?_⟩
      have : split 1 ([c] ++ rest) = some ([c], rest) := split_append [c] rest rfl
      simp only [decode1, this]
      cases c <;> rfl
  | enum w tbl =>
    match vs, h with
    | .int i :: vs0, h =>
      simp only [encode1] at h
      split at h
      · rename_i hr
        simp only [Option.some.injEq, Prod.mk.injEq] at h
        obtain ⟨rfl, rfl⟩ := h
        refine ⟨[.int i], rfl, fun rest _ => ?_⟩
        have hmem : i.toNat ∈ tbl := by simpa using hr.2
        have hlt := hf _ hmem
        simp only [decode1, split_append _ rest (Bits.ofNat_length w _), Bits.toNat_ofNat w _ hlt,
          hr.2, if_true, Int.toNat_of_nonneg hr.1]
      · cases h
  | bytes k =>
    match vs, h with
    | .bytes bs :: vs0, h =>
      simp only [encode1] at h
      split at h
      · rename_i hr
        simp only [Option.some.injEq, Prod.mk.injEq] at h
        obtain ⟨rfl, rfl⟩ := h
        refine ⟨[.bytes bs], rfl, fun rest _ => ?_⟩
        have hl : (Bits.ofBytes bs).length = 8 * k := by simp [hr.1]
        have := Bits.toBytesN_ofBytes bs hr.2 []
        simp only [List.append_nil, hr.1] at this
        simp only [decode1, split_append _ rest hl, this]
      · cases h
  | bytesRest =>
    match vs, h with
    | .bytes bs :: vs0, h =>
      simp only [encode1] at h
      split at h
      · rename_i hr
        simp only [Option.some.injEq, Prod.mk.injEq] at h
        obtain ⟨rfl, rfl⟩ := h
        refine ⟨[.bytes bs], rfl, fun rest hrest => ?_⟩
        simp only [TailOK] at hrest
        subst hrest
        simp only [decode1, List.append_nil, Bits.toBytes?_ofBytes bs hr]
      · cases h
  | bytesLeave k =>
    match vs, h with
    | .bytes bs :: vs0, h =>
      simp only [encode1] at h
      split at h
      · rename_i hr
        simp only [Option.some.injEq, Prod.mk.injEq] at h
        obtain ⟨rfl, rfl⟩ := h
        refine ⟨[.bytes bs], rfl, fun rest hrest => ?_⟩
        simp only [TailOK] at hrest
        have hlen : (Bits.ofBytes bs ++ rest).length - 8 * k = (Bits.ofBytes bs).length := by
          simp; omega
        have hle : 8 * k ≤ (Bits.ofBytes bs ++ rest).length := by simp; omega
        simp only [decode1, if_pos hle, hlen, split_append _ rest rfl, Bits.toBytes?_ofBytes bs hr]
      · cases h
  | addr20count4 =>
    match vs, h with
    | .int a :: .int c :: vs0, h =>
      simp only [encode1] at h
      split at h
      · rename_i hr
        simp only [Option.some.injEq, Prod.mk.injEq] at h
        obtain ⟨rfl, rfl⟩ := h
        refine ⟨[.int a, .int c], rfl, fun rest _ => ?_⟩
        obtain ⟨ha0, ha1, hc0, hc1⟩ := hr
        have hl : (Bits.ofNat 4 (a.toNat / 65536) ++ Bits.ofNat 4 c.toNat ++ Bits.ofNat 16 (a.toNat % 65536)).length = 24 := by
          simp
        have e1 : (Bits.ofNat 4 (a.toNat / 65536) ++ Bits.ofNat 4 c.toNat ++ Bits.ofNat 16 (a.toNat % 65536)).take 4
            = Bits.ofNat 4 (a.toNat / 65536) := by
          rw [List.append_assoc, List.take_left' (Bits.ofNat_length ..)]
        have e2 : (Bits.ofNat 4 (a.toNat / 65536) ++ Bits.ofNat 4 c.toNat ++ Bits.ofNat 16 (a.toNat % 65536)).drop 8
            = Bits.ofNat 16 (a.toNat % 65536) := by
          rw [List.drop_left' (by simp)]
        have e3 : ((Bits.ofNat 4 (a.toNat / 65536) ++ Bits.ofNat 4 c.toNat ++ Bits.ofNat 16 (a.toNat % 65536)).drop 4).take 4
            = Bits.ofNat 4 c.toNat := by
          rw [List.append_assoc, List.drop_left' (Bits.ofNat_length ..), List.take_left' (Bits.ofNat_length ..)]
        simp only [decode1, split_append _ rest hl, e1, e2, e3]
        rw [Bits.toNat_ofNat 4 _ (by omega), Bits.toNat_ofNat 16 _ (by omega), Bits.toNat_ofNat 4 _ (by omega)]
        have h1 : ((a.toNat / 65536 : Nat) : Int) * 65536 + ((a.toNat % 65536 : Nat) : Int) = a := by omega
        have h2 : ((c.toNat : Nat) : Int) = c := Int.toNat_of_nonneg hc0
        simp only [h1, h2]
      · cases h
  | bitWrite =>
    match vs, h with
    | .int a :: .bytes x :: .bytes y :: vs0, h =>
      simp only [encode1] at h
      split at h
      · rename_i hr
        simp only [Option.some.injEq, Prod.mk.injEq] at h
        obtain ⟨rfl, rfl⟩ := h
        refine ⟨[.int a, .bytes x, .bytes y], rfl, fun rest hrest => ?_⟩
        simp only [TailOK] at hrest
        subst hrest
        obtain ⟨ha0, ha1, hx, hy, hwx, hwy⟩ := hr
        have hsplit : split 24 (Bits.ofNat 8 x.length ++ Bits.ofNat 16 a.toNat ++ Bits.ofBytes x ++ Bits.ofBytes y ++ [])
            = some (Bits.ofNat 8 x.length ++ Bits.ofNat 16 a.toNat, Bits.ofBytes x ++ Bits.ofBytes y) := by
          rw [List.append_nil, List.append_assoc (Bits.ofNat 8 x.length ++ Bits.ofNat 16 a.toNat)]
          exact split_append _ _ (by simp)
        have e1 : (Bits.ofNat 8 x.length ++ Bits.ofNat 16 a.toNat).take 8 = Bits.ofNat 8 x.length :=
          List.take_left' (Bits.ofNat_length ..)
        have e2 : (Bits.ofNat 8 x.length ++ Bits.ofNat 16 a.toNat).drop 8 = Bits.ofNat 16 a.toNat :=
          List.drop_left' (Bits.ofNat_length ..)
        have hn : Bits.toNat (Bits.ofNat 8 x.length) = x.length := Bits.toNat_ofNat 8 _ (by omega)
        have hlen : (Bits.ofBytes x ++ Bits.ofBytes y).length = 8 * x.length + 8 * x.length := by
          simp [hy]
        have t1 : (Bits.ofBytes x ++ Bits.ofBytes y).take (8 * x.length) = Bits.ofBytes x :=
          List.take_left' (by simp)
        have t2 : (Bits.ofBytes x ++ Bits.ofBytes y).drop (8 * x.length) = Bits.ofBytes y :=
          List.drop_left' (by simp)
        have b1 := Bits.toBytesN_ofBytes x hwx []
        have b2 := Bits.toBytesN_ofBytes y hwy []
        simp only [List.append_nil, hy] at b1 b2
        simp only [decode1, hsplit, e1, e2, hn, hlen, if_true, t1, t2, b1, b2,
          Bits.toNat_ofNat 16 _ (show a.toNat < 2 ^ 16 by omega), Int.toNat_of_nonneg ha0]
      · cases h


/-- One field, other direction: the decoder consumed a prefix `pre`; if the
encoder accepts the decoded values it emits `pre` again - all zero for a
reserved field. -/
theorem encode1_decode1 (f : Field) (bits rest : Bits) (used : List Val)
    (h : decode1 f bits = some (used, rest)) :
    ∃ pre, bits = pre ++ rest ∧
      ∀ vs' b vs'', encode1 f (used ++ vs') = some (b, vs'') →
        vs'' = vs' ∧ b = (if isReserved f then List.replicate pre.length false else pre) := by
  cases f with
  | const w v =>
    simp only [decode1] at h
    split at h
    · rename_i a r hs
      obtain ⟨rfl, hl⟩ := split_some hs
      split at h
      · rename_i hv
        simp only [Option.some.injEq, Prod.mk.injEq] at h
        obtain ⟨rfl, rfl⟩ := h
        refine ⟨a, rfl, fun vs' b vs'' he => ?_⟩
        simp only [encode1, List.nil_append, Option.some.injEq, Prod.mk.injEq] at he
        obtain ⟨rfl, rfl⟩ := he
        refine ⟨rfl, ?_⟩
        simp only [isReserved, Bool.false_eq_true, if_false]
        rw [← hv]; exact Bits.ofNat_toNat' a w hl
      · cases h
    · cases h
  | reserved w =>
    simp only [decode1] at h
    split at h
    · rename_i a r hs
      obtain ⟨rfl, hl⟩ := split_some hs
      simp only [Option.some.injEq, Prod.mk.injEq] at h
      obtain ⟨rfl, rfl⟩ := h
      refine ⟨a, rfl, fun vs' b vs'' he => ?_⟩
      simp only [encode1, List.nil_append, Option.some.injEq, Prod.mk.injEq] at he
      obtain ⟨rfl, rfl⟩ := he
      simp [isReserved, hl]
    · cases h
  | uint w lo hi =>
    simp only [decode1] at h
    split at h
    · rename_i a r hs
      obtain ⟨rfl, hl⟩ := split_some hs
      simp only [Option.some.injEq, Prod.mk.injEq] at h
      obtain ⟨rfl, rfl⟩ := h
      refine ⟨a, rfl, fun vs' b vs'' he => ?_⟩
      simp only [List.cons_append, List.nil_append, encode1] at he
      split at he
      · simp only [Option.some.injEq, Prod.mk.injEq] at he
        obtain ⟨rfl, rfl⟩ := he
        refine ⟨rfl, ?_⟩
        simp only [isReserved, Bool.false_eq_true, if_false, Int.toNat_natCast]
        exact Bits.ofNat_toNat' a w hl
      · cases he
    · cases h
  | flag =>
    simp only [decode1] at h
    split at h
    · rename_i a r hs
      obtain ⟨rfl, hl⟩ := split_some hs
      simp only [Option.some.injEq, Prod.mk.injEq] at h
      obtain ⟨rfl, rfl⟩ := h
      refine ⟨a, rfl, fun vs' b vs'' he => ?_⟩
      simp only [List.cons_append, List.nil_append, encode1, Option.some.injEq, Prod.mk.injEq] at he
      obtain ⟨rfl, rfl⟩ := he
      refine ⟨rfl, ?_⟩
      simp only [isReserved, Bool.false_eq_true, if_false]
      match a, hl with
      | [c], _ => cases c <;> rfl
    · cases h
  | enum w tbl =>
    simp only [decode1] at h
    split at h
    · rename_i a r hs
      obtain ⟨rfl, hl⟩ := split_some hs
      split at h
      · simp only [Option.some.injEq, Prod.mk.injEq] at h
        obtain ⟨rfl, rfl⟩ := h
        refine ⟨a, rfl, fun vs' b vs'' he => ?_⟩
        simp only [List.cons_append, List.nil_append, encode1] at he
        split at he
        · simp only [Option.some.injEq, Prod.mk.injEq] at he
          obtain ⟨rfl, rfl⟩ := he
          refine ⟨rfl, ?_⟩
          simp only [isReserved, Bool.false_eq_true, if_false, Int.toNat_natCast]
          exact Bits.ofNat_toNat' a w hl
        · cases he
      · cases h
    · cases h
  | bytes k =>
    simp only [decode1] at h
    split at h
    · rename_i a r hs
      obtain ⟨rfl, hl⟩ := split_some hs
      simp only [Option.some.injEq, Prod.mk.injEq] at h
      obtain ⟨rfl, rfl⟩ := h
      refine ⟨a, rfl, fun vs' b vs'' he => ?_⟩
      simp only [List.cons_append, List.nil_append, encode1] at he
      split at he
      · simp only [Option.some.injEq, Prod.mk.injEq] at he
        obtain ⟨rfl, rfl⟩ := he
        refine ⟨rfl, ?_⟩
        simp only [isReserved, Bool.false_eq_true, if_false]
        exact Bits.ofBytes_toBytesN k a hl
      · cases he
    · cases h
  | bytesRest =>
    simp only [decode1] at h
    split at h
    · rename_i bs hb
      simp only [Option.some.injEq, Prod.mk.injEq] at h
      obtain ⟨rfl, rfl⟩ := h
      refine ⟨bits, by simp, fun vs' b vs'' he => ?_⟩
      simp only [List.cons_append, List.nil_append, encode1] at he
      split at he
      · simp only [Option.some.injEq, Prod.mk.injEq] at he
        obtain ⟨rfl, rfl⟩ := he
        refine ⟨rfl, ?_⟩
        simp only [isReserved, Bool.false_eq_true, if_false]
        exact (Bits.toBytes?_some bits bs hb).1
      · cases he
    · cases h
  | bytesLeave k =>
    simp only [decode1] at h
    split at h
    · split at h
      · rename_i a r hs
        obtain ⟨hbits, hl⟩ := split_some hs
        split at h
        · rename_i bs hb
          simp only [Option.some.injEq, Prod.mk.injEq] at h
          obtain ⟨rfl, rfl⟩ := h
          refine ⟨a, hbits, fun vs' b vs'' he => ?_⟩
          simp only [List.cons_append, List.nil_append, encode1] at he
          split at he
          · simp only [Option.some.injEq, Prod.mk.injEq] at he
            obtain ⟨rfl, rfl⟩ := he
            refine ⟨rfl, ?_⟩
            simp only [isReserved, Bool.false_eq_true, if_false]
            exact (Bits.toBytes?_some a bs hb).1
          · cases he
        · cases h
      · cases h
    · cases h
  | addr20count4 =>
    simp only [decode1] at h
    split at h
    · rename_i a r hs
      obtain ⟨rfl, hl⟩ := split_some hs
      simp only [Option.some.injEq, Prod.mk.injEq] at h
      obtain ⟨rfl, rfl⟩ := h
      refine ⟨a, rfl, fun vs' b vs'' he => ?_⟩
      simp only [List.cons_append, List.nil_append, encode1] at he
      split at he
      · simp only [Option.some.injEq, Prod.mk.injEq] at he
        obtain ⟨rfl, rfl⟩ := he
        refine ⟨rfl, ?_⟩
        simp only [isReserved, Bool.false_eq_true, if_false]
        have l1 : (a.take 4).length = 4 := by simp; omega
        have l2 : ((a.drop 4).take 4).length = 4 := by simp; omega
        have l3 : (a.drop 8).length = 16 := by simp; omega
        have b1 := Bits.toNat_lt (a.take 4)
        have b3 := Bits.toNat_lt (a.drop 8)
        rw [l1] at b1; rw [l3] at b3
        have e1 : (Bits.toNat (a.take 4) * 65536 + Bits.toNat (a.drop 8) : Int).toNat / 65536
            = Bits.toNat (a.take 4) := by omega
        have e3 : (Bits.toNat (a.take 4) * 65536 + Bits.toNat (a.drop 8) : Int).toNat % 65536
            = Bits.toNat (a.drop 8) := by omega
        rw [e1, e3, Int.toNat_natCast, Bits.ofNat_toNat' _ 4 l1, Bits.ofNat_toNat' _ 4 l2,
          Bits.ofNat_toNat' _ 16 l3]
        have h48 : (a.drop 4).drop 4 = a.drop 8 := by rw [List.drop_drop]
        have : a.drop 4 = (a.drop 4).take 4 ++ a.drop 8 := by
          rw [← h48]; exact (List.take_append_drop 4 (a.drop 4)).symm
        calc a.take 4 ++ (a.drop 4).take 4 ++ a.drop 8
            = a.take 4 ++ ((a.drop 4).take 4 ++ a.drop 8) := by rw [List.append_assoc]
          _ = a.take 4 ++ a.drop 4 := by rw [← this]
          _ = a := List.take_append_drop 4 a
      · cases he
    · cases h
  | bitWrite =>
    simp only [decode1] at h
    split at h
    · rename_i a r hs
      obtain ⟨rfl, hl⟩ := split_some hs
      split at h
      · rename_i hr
        simp only [Option.some.injEq, Prod.mk.injEq] at h
        obtain ⟨rfl, rfl⟩ := h
        refine ⟨a ++ r, by simp, fun vs' b vs'' he => ?_⟩
        simp only [List.cons_append, List.nil_append, encode1] at he
        split at he
        · simp only [Option.some.injEq, Prod.mk.injEq] at he
          obtain ⟨rfl, rfl⟩ := he
          refine ⟨rfl, ?_⟩
          simp only [isReserved, Bool.false_eq_true, if_false, Bits.toBytesN_length, Int.toNat_natCast]
          have l1 : (a.take 8).length = 8 := by simp; omega
          have l3 : (a.drop 8).length = 16 := by simp; omega
          have t1 : (r.take (8 * Bits.toNat (a.take 8))).length = 8 * Bits.toNat (a.take 8) := by
            simp; omega
          have t2 : (r.drop (8 * Bits.toNat (a.take 8))).length = 8 * Bits.toNat (a.take 8) := by
            simp; omega
          rw [Bits.ofNat_toNat' _ 8 l1, Bits.ofNat_toNat' _ 16 l3, Bits.ofBytes_toBytesN _ _ t1,
            Bits.ofBytes_toBytesN _ _ t2, List.take_append_drop, List.append_assoc,
            List.take_append_drop]
        · cases he
      · cases h
    · cases h

/-! ### Field lists -/

theorem fixedWidth_length (l : List Field) (vs : List Val) (bits : Bits) (n : Nat)
    (hw : fixedWidth l = some n) (h : encodeFields l vs = some bits) : bits.length = n := by
  induction l generalizing vs bits n with
  | nil =>
    simp only [encodeFields] at h
    split at h
    · simp only [Option.some.injEq] at h; subst h
      simp only [fixedWidth, Option.some.injEq] at hw; subst hw; rfl
    · cases h
  | cons f fs ih =>
    simp only [encodeFields] at h
    split at h
    · rename_i b vs' he
      split at h
      · rename_i bs hbs
        simp only [Option.some.injEq] at h; subst h
        simp only [fixedWidth] at hw
        split at hw
        · rename_i a c ha hc
          simp only [Option.some.injEq] at hw; subst hw
          have := ih vs' bs c hc hbs
          rw [List.length_append, this]
          congr 1
          cases f <;> simp only [reduceCtorEq] at ha <;> simp only [Option.some.injEq] at ha <;> subst ha
          · simp only [encode1, Option.some.injEq, Prod.mk.injEq] at he; rw [← he.1]; simp
          · simp only [encode1, Option.some.injEq, Prod.mk.injEq] at he; rw [← he.1]; simp
          · match vs, he with
            | .int i :: _, he =>
              simp only [encode1] at he
              split at he
              · simp only [Option.some.injEq, Prod.mk.injEq] at he; rw [← he.1]; simp
              · cases he
          · match vs, he with
            | .flag i :: _, he =>
              simp only [encode1, Option.some.injEq, Prod.mk.injEq] at he; rw [← he.1]; simp
          · match vs, he with
            | .int i :: _, he =>
              simp only [encode1] at he
              split at he
              · simp only [Option.some.injEq, Prod.mk.injEq] at he; rw [← he.1]; simp
              · cases he
          · match vs, he with
            | .bytes i :: _, he =>
              simp only [encode1] at he
              split at he
              · rename_i hr
                simp only [Option.some.injEq, Prod.mk.injEq] at he; rw [← he.1]; simp [hr.1]
              · cases he
          · match vs, he with
            | .int a :: .int c :: _, he =>
              simp only [encode1] at he
              split at he
              · simp only [Option.some.injEq, Prod.mk.injEq] at he; rw [← he.1]; simp
              · cases he
        · cases hw
      · cases h
    · cases h

theorem FieldsWF_cons {f : Field} {fs : List Field} (h : FieldsWF (f :: fs) = true) :
    Field1WF f ∧ FieldsWF fs = true ∧
      (∀ vs bs, encodeFields fs vs = some bs → TailOK f bs) := by
  simp only [FieldsWF, Bool.and_eq_true] at h
  obtain ⟨h1, h2⟩ := h
  refine ⟨?_, h2, ?_⟩
  · cases f <;> simp only [Field1WF] <;> simp at h1 <;> exact h1
  · intro vs bs he
    cases f <;> simp only [TailOK]
    · -- bytesRest
      simp only [List.isEmpty_iff] at h1; subst h1
      simp only [encodeFields] at he
      split at he
      · simp only [Option.some.injEq] at he; exact he.symm
      · cases he
    · -- bytesLeave
      simp only [beq_iff_eq] at h1
      exact fixedWidth_length fs vs bs _ h1 he
    · -- bitWrite
      simp only [List.isEmpty_iff] at h1; subst h1
      simp only [encodeFields] at he
      split at he
      · simp only [Option.some.injEq] at he; exact he.symm
      · cases he

/-- **Generic round trip, encoder first.**  For a well-formed layout, whatever
the encoder accepts decodes back to exactly the same values: no field is
truncated, wrapped into a neighbour or padded. -/
theorem decodeFields_encodeFields (l : List Field) (hwf : FieldsWF l = true) (vs : List Val) (bits : Bits)
    (h : encodeFields l vs = some bits) : decodeFields l bits = some vs := by
  induction l generalizing vs bits with
  | nil =>
    simp only [encodeFields] at h
    split at h
    · rename_i hv
      simp only [Option.some.injEq] at h; subst h
      simp only [List.isEmpty_iff] at hv; subst hv
      rfl
    · cases h
  | cons f fs ih =>
    obtain ⟨hf, hfs, htail⟩ := FieldsWF_cons hwf
    simp only [encodeFields] at h
    split at h
    · rename_i b vs' he
      split at h
      · rename_i bs hbs
        simp only [Option.some.injEq] at h; subst h
        obtain ⟨used, rfl, hd⟩ := decode1_encode1 f hf vs vs' b he
        simp only [decodeFields, hd bs (htail vs' bs hbs), ih hfs vs' bs hbs]
      · cases h
    · cases h

theorem maskFields_length (l : List Field) (bits : Bits) : (maskFields l bits).length = bits.length := by
  induction l generalizing bits with
  | nil => simp [maskFields]
  | cons f fs ih =>
    simp only [maskFields]
    split
    · rename_i vs r hd
      obtain ⟨pre, rfl, _⟩ := encode1_decode1 f bits r vs hd
      simp [ih]
    · simp

theorem clear_append (m1 m2 b1 b2 : Bits) (h : m1.length = b1.length) :
    clear (m1 ++ m2) (b1 ++ b2) = clear m1 b1 ++ clear m2 b2 := by
  unfold clear
  exact List.zipWith_append h

theorem clear_true (b : Bits) : clear (List.replicate b.length true) b = List.replicate b.length false := by
  induction b with
  | nil => rfl
  | cons x xs ih =>
    simp only [List.length_cons, List.replicate_succ, clear, List.zipWith_cons_cons] at ih ⊢
    simp [ih]

theorem clear_false (b : Bits) : clear (List.replicate b.length false) b = b := by
  induction b with
  | nil => rfl
  | cons x xs ih =>
    simp only [List.length_cons, List.replicate_succ, clear, List.zipWith_cons_cons] at ih ⊢
    simp [ih]

/-- **Generic round trip, decoder first.**  If the values decoded from `bits`
can be encoded again, the encoding is `bits` with exactly the reserved
positions zeroed (so: same length, equal on every non-reserved bit). -/
theorem encodeFields_decodeFields (l : List Field) (bits bits' : Bits) (vs : List Val)
    (hd : decodeFields l bits = some vs) (he : encodeFields l vs = some bits') :
    bits' = clear (maskFields l bits) bits := by
  induction l generalizing bits bits' vs with
  | nil =>
    simp only [decodeFields] at hd
    split at hd
    · rename_i hb
      simp only [List.isEmpty_iff] at hb; subst hb
      simp only [Option.some.injEq] at hd; subst hd
      simp only [encodeFields, List.isEmpty_nil, if_true, Option.some.injEq] at he
      subst he; rfl
    · cases hd
  | cons f fs ih =>
    simp only [decodeFields] at hd
    split at hd
    · rename_i used r h1
      split at hd
      · rename_i ws hws
        simp only [Option.some.injEq] at hd; subst hd
        obtain ⟨pre, rfl, henc⟩ := encode1_decode1 f bits r used h1
        simp only [encodeFields] at he
        split at he
        · rename_i b vs'' he1
          obtain ⟨hvs, hb⟩ := henc ws b vs'' he1
          rw [hvs] at he
          split at he
          · rename_i bs hbs
            simp only [Option.some.injEq] at he; subst he
            have := ih r bs ws hws hbs
            simp only [maskFields, h1]
            have hl : (pre ++ r).length - r.length = pre.length := by simp
            rw [hl, clear_append _ _ _ _ (by simp), ← this, hb]
            cases hres : isReserved f
            · simp [clear_false]
            · simp [clear_true]
          · cases he
        · cases he
      · cases hd
    · cases hd

theorem clear_length (m b : Bits) (h : m.length = b.length) : (clear m b).length = b.length := by
  simp [clear, h]

/-- The width computed from the values alone is the width of the encoding. -/
theorem widthOf_encodeFields (l : List Field) (vs : List Val) (bits : Bits)
    (h : encodeFields l vs = some bits) : widthOf l vs = some bits.length := by
  induction l generalizing vs bits with
  | nil =>
    simp only [encodeFields] at h
    split at h
    · simp only [Option.some.injEq] at h; subst h; rfl
    · cases h
  | cons f fs ih =>
    simp only [encodeFields] at h
    split at h
    · rename_i b vs' he
      split at h
      · rename_i bs hbs
        simp only [Option.some.injEq] at h; subst h
        have hi := ih vs' bs hbs
        cases f with
        | const w v =>
          simp only [encode1, Option.some.injEq, Prod.mk.injEq] at he
          obtain ⟨rfl, rfl⟩ := he
          simp [widthOf, hi]
        | reserved w =>
          simp only [encode1, Option.some.injEq, Prod.mk.injEq] at he
          obtain ⟨rfl, rfl⟩ := he
          simp [widthOf, hi]
        | uint w lo hi' =>
          match vs, he with
          | .int i :: _, he =>
            simp only [encode1] at he
            split at he
            · simp only [Option.some.injEq, Prod.mk.injEq] at he
              obtain ⟨rfl, rfl⟩ := he
              simp [widthOf, hi]
            · cases he
        | flag =>
          match vs, he with
          | .flag i :: _, he =>
            simp only [encode1, Option.some.injEq, Prod.mk.injEq] at he
            obtain ⟨rfl, rfl⟩ := he
            simp [widthOf, hi]; omega
        | enum w tbl =>
          match vs, he with
          | .int i :: _, he =>
            simp only [encode1] at he
            split at he
            · simp only [Option.some.injEq, Prod.mk.injEq] at he
              obtain ⟨rfl, rfl⟩ := he
              simp [widthOf, hi]
            · cases he
        | bytes k =>
          match vs, he with
          | .bytes i :: _, he =>
            simp only [encode1] at he
            split at he
            · simp only [Option.some.injEq, Prod.mk.injEq] at he
              obtain ⟨rfl, rfl⟩ := he
              simp [widthOf, hi]
            · cases he
        | bytesRest =>
          match vs, he with
          | .bytes i :: _, he =>
            simp only [encode1] at he
            split at he
            · simp only [Option.some.injEq, Prod.mk.injEq] at he
              obtain ⟨rfl, rfl⟩ := he
              simp [widthOf, hi]
            · cases he
        | bytesLeave k =>
          match vs, he with
          | .bytes i :: _, he =>
            simp only [encode1] at he
            split at he
            · simp only [Option.some.injEq, Prod.mk.injEq] at he
              obtain ⟨rfl, rfl⟩ := he
              simp [widthOf, hi]
            · cases he
        | addr20count4 =>
          match vs, he with
          | .int a :: .int c :: _, he =>
            simp only [encode1] at he
            split at he
            · simp only [Option.some.injEq, Prod.mk.injEq] at he
              obtain ⟨rfl, rfl⟩ := he
              simp [widthOf, hi]; omega
            · cases he
        | bitWrite =>
          match vs, he with
          | .int a :: .bytes x :: .bytes y :: _, he =>
            simp only [encode1] at he
            split at he
            · simp only [Option.some.injEq, Prod.mk.injEq] at he
              obtain ⟨rfl, rfl⟩ := he
              simp [widthOf, hi]; omega
            · cases he
      · cases h
    · cases h

end XknxVerif.APCI
