/-
When does re-encoding a decoded object succeed?  Whenever every integer field
of the layout accepts its full wire range (true for all rows but the eight
with a documented narrower range, e.g. `count ≤ 250`, `1 ≤ number ≤ 254`).
-/
import XknxVerif.Lemmas.APCIGuard

namespace XknxVerif.APCI

/-- The encoder accepts every value the wire field can carry. -/
def fullRange : Field → Bool
  | .uint w lo hi => lo == 0 && hi == 2 ^ w - 1
  | _ => true

theorem encode1_of_decode1 (f : Field) (hf : fullRange f = true) (bits rest : Bits) (used : List Val)
    (h : decode1 f bits = some (used, rest)) (vs' : List Val) :
    ∃ b, encode1 f (used ++ vs') = some (b, vs') := by
  cases f with
  | const w v =>
    simp only [decode1] at h
    split at h
    · split at h
      · simp only [Option.some.injEq, Prod.mk.injEq] at h
        obtain ⟨rfl, rfl⟩ := h
        exact ⟨_, rfl⟩
      · cases h
    · cases h
  | reserved w =>
    simp only [decode1] at h
    split at h
    · simp only [Option.some.injEq, Prod.mk.injEq] at h
      obtain ⟨rfl, rfl⟩ := h
      exact ⟨_, rfl⟩
    · cases h
  | uint w lo hi =>
    simp only [fullRange, Bool.and_eq_true, beq_iff_eq] at hf
    obtain ⟨rfl, rfl⟩ := hf
    simp only [decode1] at h
    split at h
    · rename_i a r hs
      obtain ⟨_, hl⟩ := split_some hs
      simp only [Option.some.injEq, Prod.mk.injEq] at h
      obtain ⟨rfl, rfl⟩ := h
      have hlt := Bits.toNat_lt a
      rw [hl] at hlt
      refine ⟨Bits.ofNat w (Bits.toNat a), ?_⟩
      simp only [List.cons_append, List.nil_append, encode1, Int.toNat_natCast]
      rw [if_pos]
      constructor
      · exact Int.natCast_nonneg _
      · have : Bits.toNat a ≤ 2 ^ w - 1 := by omega
        exact Int.ofNat_le.mpr this
    · cases h
  | flag =>
    simp only [decode1] at h
    split at h
    · simp only [Option.some.injEq, Prod.mk.injEq] at h
      obtain ⟨rfl, rfl⟩ := h
      exact ⟨_, rfl⟩
    · cases h
  | enum w tbl =>
    simp only [decode1] at h
    split at h
    · split at h
      · rename_i a r _ hc
        simp only [Option.some.injEq, Prod.mk.injEq] at h
        obtain ⟨rfl, rfl⟩ := h
        refine ⟨Bits.ofNat w (Bits.toNat a), ?_⟩
        simp only [List.cons_append, List.nil_append, encode1, Int.toNat_natCast]
        rw [if_pos ⟨Int.natCast_nonneg _, hc⟩]
      · cases h
    · cases h
  | bytes k =>
    simp only [decode1] at h
    split at h
    · simp only [Option.some.injEq, Prod.mk.injEq] at h
      obtain ⟨rfl, rfl⟩ := h
      simp only [List.cons_append, List.nil_append, encode1]
      rw [if_pos ⟨Bits.toBytesN_length _ _, Bits.toBytesN_wf _ _⟩]
      exact ⟨_, rfl⟩
    · cases h
  | bytesRest =>
    simp only [decode1] at h
    split at h
    · rename_i bs hb
      simp only [Option.some.injEq, Prod.mk.injEq] at h
      obtain ⟨rfl, rfl⟩ := h
      simp only [List.cons_append, List.nil_append, encode1]
      rw [if_pos (Bits.toBytes?_some _ _ hb).2.1]
      exact ⟨_, rfl⟩
    · cases h
  | bytesLeave k =>
    simp only [decode1] at h
    split at h
    · split at h
      · split at h
        · rename_i bs hb
          simp only [Option.some.injEq, Prod.mk.injEq] at h
          obtain ⟨rfl, rfl⟩ := h
          simp only [List.cons_append, List.nil_append, encode1]
          rw [if_pos (Bits.toBytes?_some _ _ hb).2.1]
          exact ⟨_, rfl⟩
        · cases h
      · cases h
    · cases h
  | addr20count4 =>
    simp only [decode1] at h
    split at h
    · rename_i a r hs
      obtain ⟨_, hl⟩ := split_some hs
      simp only [Option.some.injEq, Prod.mk.injEq] at h
      obtain ⟨rfl, rfl⟩ := h
      have b1 := Bits.toNat_lt (a.take 4)
      have b2 := Bits.toNat_lt ((a.drop 4).take 4)
      have b3 := Bits.toNat_lt (a.drop 8)
      have l1 : (a.take 4).length = 4 := by simp; omega
      have l2 : ((a.drop 4).take 4).length = 4 := by simp; omega
      have l3 : (a.drop 8).length = 16 := by simp; omega
      rw [l1] at b1; rw [l2] at b2; rw [l3] at b3
      simp only [List.cons_append, List.nil_append, encode1]
      rw [if_pos]
      exact ⟨_, rfl⟩
      refine ⟨by omega, by omega, by omega, by omega⟩
    · cases h
  | bitWrite =>
    simp only [decode1] at h
    split at h
    · rename_i a r hs
      obtain ⟨_, hl⟩ := split_some hs
      split at h
      · rename_i hr
        simp only [Option.some.injEq, Prod.mk.injEq] at h
        obtain ⟨rfl, rfl⟩ := h
        have b1 := Bits.toNat_lt (a.take 8)
        have b3 := Bits.toNat_lt (a.drop 8)
        have l1 : (a.take 8).length = 8 := by simp; omega
        have l3 : (a.drop 8).length = 16 := by simp; omega
        rw [l1] at b1; rw [l3] at b3
        simp only [List.cons_append, List.nil_append, encode1, Bits.toBytesN_length]
        rw [if_pos]
        exact ⟨_, rfl⟩
        exact ⟨by omega, by omega, by omega, trivial, Bits.toBytesN_wf _ _, Bits.toBytesN_wf _ _⟩
      · cases h
    · cases h

theorem encodeFields_of_decodeFields (l : List Field) (hf : l.all fullRange = true) (bits : Bits)
    (vs : List Val) (h : decodeFields l bits = some vs) : ∃ bits', encodeFields l vs = some bits' := by
  induction l generalizing bits vs with
  | nil =>
    simp only [decodeFields] at h
    split at h
    · simp only [Option.some.injEq] at h; subst h
      exact ⟨[], rfl⟩
    · cases h
  | cons f fs ih =>
    simp only [List.all_cons, Bool.and_eq_true] at hf
    simp only [decodeFields] at h
    split at h
    · rename_i used r h1
      split at h
      · rename_i ws hws
        simp only [Option.some.injEq] at h; subst h
        obtain ⟨b, hb⟩ := encode1_of_decode1 f hf.1 bits r used h1 ws
        obtain ⟨bs, hbs⟩ := ih hf.2 r ws hws
        exact ⟨b ++ bs, by simp only [encodeFields, hb, hbs]⟩
      · cases h
    · cases h

/-- **Re-encoding is possible** for every decoded object of a row whose integer
fields all accept their full wire range (and that is not `ADCResponse`). -/
theorem encodeAPDU_of_decodeAPDU (raw : Bytes) (s : Service) (row : Row)
    (hd : decodeAPDU raw = .ok s) (hrow : table[s.row]? = some row)
    (hfull : row.variants.all (fun v => v.body.all fullRange) = true)
    (hn : (row.name == "ADCResponse") = false) : ∃ raw', encodeAPDU s = some raw' := by
  obtain ⟨row', v, _, _, hrow', hsup, hv, hok, hvals⟩ := decodeAPDU_ok hd
  rw [hrow] at hrow'; injection hrow' with hrow'; subst hrow'
  have hvm : v ∈ row.variants := List.mem_of_getElem? hv
  rw [List.all_eq_true] at hfull
  have hfl : (fullFields row v).all fullRange = true := by
    unfold fullFields
    simp only [List.all_cons, fullRange, Bool.true_and]
    cases row.short <;> simpa [fullRange] using hfull v hvm
  obtain ⟨bits', hbits⟩ := encodeFields_of_decodeFields _ hfl _ _ hvals
  have hmain := encodeFields_decodeFields _ _ _ _ hvals hbits
  have hl : bits'.length = 8 * raw.length := by
    rw [hmain, clear_length _ _ (maskFields_length _ _), Bits.ofBytes_length]
  have hguard := guard_vacuous s.row row v s.vals bits' hrow hvm hn hbits
  have hbytes : Bits.toBytes? bits' = some (Bits.toBytesN (bits'.length / 8) bits') := by
    unfold Bits.toBytes?; rw [if_pos (by omega)]
  refine ⟨Bits.toBytesN (bits'.length / 8) bits', ?_⟩
  have hlen : (Bits.toBytesN (bits'.length / 8) bits').length = raw.length := by
    rw [Bits.toBytesN_length]; omega
  simp only [encodeAPDU, hrow, hsup, hv, hbits, hbytes, hlen, hok, hguard]
  simp

end XknxVerif.APCI
