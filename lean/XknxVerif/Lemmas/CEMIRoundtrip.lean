/-
Lemmas for C13: control-field and TPDU facts over their complete finite domains, and byte-level
helpers for frames of the shape `CEMILData.to_knx` produces.
-/
import XknxVerif.Lemmas.CEMI

namespace XknxVerif.CEMI
open XknxVerif.Generated

/-- flags with in-range fields and the STANDARD extended frame format -/
def mkFlags (p : Fin 4) (rep sb ack ce : Bool) (hop : Fin 8) (ft : Nat) : Flags :=
  ⟨p.val, rep, sb, ack, ce, hop.val, ft, 0⟩

/-- the 16-bit control field `to_knx` assembles -/
def mkControl (fl ft at_ : Nat) : Nat := fl ||| (ft <<< 15) ||| (at_ <<< 7)

def ctlOk (p : Fin 4) (rep sb ack ce : Bool) (hop : Fin 8) (ft at_ : Fin 2) : Bool :=
  match (mkFlags p rep sb ack ce hop 1).toKnx with
  | .error _ => false
  | .ok fl =>
    let c := mkControl fl ft.val at_.val
    decide (c < 65536) && (Flags.fromKnx c == .ok (mkFlags p rep sb ack ce hop ft.val))
      && (((c >>> 7) &&& 1 == 1) == (at_.val == 1))
      && ((c / 256 % 256) >>> 7 == ft.val) && ((c % 256) >>> 7 == at_.val)

theorem ctlOk_all : ∀ p rep sb ack ce hop ft at_, ctlOk p rep sb ack ce hop ft at_ = true := by
  decide +kernel

/-- the five data PDU shapes -/
def dataShape (k : Fin 5) (s : Fin 16) : TPCI.T :=
  match k with
  | 0 => .dataGroup | 1 => .dataBroadcast | 2 => .dataTagGroup | 3 => .dataIndividual | 4 => .dataConnected s

theorem data_tpdu_ok : ∀ b0 : Fin 4, ∀ k : Fin 5, ∀ s : Fin 16, ∀ g z : Bool,
    TPCI.kindOk (dataShape k s) g z = true →
      ((b0.val ||| TPCI.encode (dataShape k s)) &&& 3 = b0.val)
        ∧ TPCI.resolve (b0.val ||| TPCI.encode (dataShape k s)) g z = .ok (dataShape k s)
        ∧ (b0.val ||| TPCI.encode (dataShape k s)) < 256 := by
  decide +kernel

theorem dataShape_surj (t : TPCI.T) (hc : TPCI.Constructible t) (hd : t.isControl = false) :
    ∃ k s, dataShape k s = t := by
  cases t with
  | dataGroup => exact ⟨0, 0, rfl⟩
  | dataBroadcast => exact ⟨1, 0, rfl⟩
  | dataTagGroup => exact ⟨2, 0, rfl⟩
  | dataIndividual => exact ⟨3, 0, rfl⟩
  | dataConnected s => exact ⟨4, ⟨s, hc⟩, rfl⟩
  | connect => simp [TPCI.T.isControl] at hd
  | disconnect => simp [TPCI.T.isControl] at hd
  | ack s => simp [TPCI.T.isControl] at hd
  | nak s => simp [TPCI.T.isControl] at hd

/-- the four control PDU shapes -/
def ctrlShape (k : Fin 4) (s : Fin 16) : TPCI.T :=
  match k with
  | 0 => .connect | 1 => .disconnect | 2 => .ack s | 3 => .nak s

theorem ctrl_tpdu_ok : ∀ k : Fin 4, ∀ s : Fin 16, ∀ g z : Bool,
    TPCI.kindOk (ctrlShape k s) g z = true →
      TPCI.resolve (TPCI.encode (ctrlShape k s)) g z = .ok (ctrlShape k s)
        ∧ TPCI.encode (ctrlShape k s) < 256 := by
  decide +kernel

theorem ctrlShape_surj (t : TPCI.T) (hc : TPCI.Constructible t) (hd : t.isControl = true) :
    ∃ k s, ctrlShape k s = t := by
  cases t with
  | connect => exact ⟨0, 0, rfl⟩
  | disconnect => exact ⟨1, 0, rfl⟩
  | ack s => exact ⟨2, ⟨s, hc⟩, rfl⟩
  | nak s => exact ⟨3, ⟨s, hc⟩, rfl⟩
  | dataGroup => simp [TPCI.T.isControl] at hd
  | dataBroadcast => simp [TPCI.T.isControl] at hd
  | dataTagGroup => simp [TPCI.T.isControl] at hd
  | dataIndividual => simp [TPCI.T.isControl] at hd
  | dataConnected s => simp [TPCI.T.isControl] at hd

theorem ofNatBE_two (n : Nat) : Bytes.ofNatBE 2 n = [n / 256 % 256, n % 256] := by
  simp [Bytes.ofNatBE]

theorem toNatBE_pair (n : Nat) (h : n < 65536) : Bytes.toNatBE [n / 256 % 256, n % 256] = n := by
  simp only [Bytes.toNatBE, List.foldl_cons, List.foldl_nil]
  omega


/-- parsing a frame of the serialised shape -/
theorem pre_of_shape (c src dst n : Nat) (tpdu : Bytes) (hc : c < 65536) (hs : src < 65536) (hd : dst < 65536)
    (ht : tpdu ≠ []) :
    pre (Bytes.ofNatBE 2 c ++ Bytes.ofNatBE 2 src ++ Bytes.ofNatBE 2 dst ++ [n] ++ tpdu) =
      (match Flags.fromKnx c with
      | .error _ => .error .unsupported
      | .ok flags =>
        if flags.frameFormat != Cemi.frameFormatStandard then .error .unsupported else
        if tpdu.length != n + 1 then .error .parse else
        match TPCI.resolve (tpdu.headD 0) ((c >>> 7) &&& 1 == 1) (dst == 0) with
        | .error _ => .error .unsupported
        | .ok tpci =>
          if tpci.isControl then
            (if n != 0 then .error .parse else .ok ⟨flags, src, (c >>> 7) &&& 1 == 1, dst, tpci, none⟩)
          else .ok ⟨flags, src, (c >>> 7) &&& 1 == 1, dst, tpci, some ((tpdu.headD 0 &&& 3) :: tpdu.drop 1)⟩) := by
  obtain ⟨t0, ts, rfl⟩ := List.exists_cons_of_ne_nil ht
  simp only [ofNatBE_two, List.cons_append, List.nil_append]
  unfold pre apduOf
  simp only [List.length_cons, Bytes.slice, List.take, List.drop, List.getD_cons_succ, List.getD_cons_zero,
    List.headD_cons, toNatBE_pair c hc, toNatBE_pair src hs, toNatBE_pair dst hd]
  have : ¬ (ts.length + 1 + 1 + 1 + 1 + 1 + 1 + 1 + 1 < 8) := by omega
  simp only [this, ↓reduceIte]
  rfl

theorem flags_eq_mk (f : Flags) (hp : f.priority < 4) (hh : f.hop ≤ 7) (hf : f.frameFormat = 0) :
    f = mkFlags ⟨f.priority, hp⟩ f.repeatOnError f.systemBroadcast f.ackRequest f.confirmError
          ⟨f.hop, by omega⟩ f.frameType := by
  cases f; simp_all [mkFlags]

theorem toKnx_mk_ft (p rep sb ack ce hop) (ft : Nat) :
    (mkFlags p rep sb ack ce hop ft).toKnx = (mkFlags p rep sb ack ce hop 1).toKnx := rfl

def atBit (g : Bool) : Nat := if g then 1 else 0
theorem atBit_lt (g : Bool) : atBit g < 2 := by cases g <;> decide
theorem atBit_eq (g : Bool) : (atBit g == 1) = g := by cases g <;> rfl

/-- facts about the control field extracted from the finite check -/
theorem ctl_facts (p : Fin 4) (rep sb ack ce : Bool) (hop : Fin 8) (ft at_ : Nat) (hft : ft < 2) (hat : at_ < 2) :
    ∃ fl, (mkFlags p rep sb ack ce hop 1).toKnx = .ok fl ∧
      mkControl fl ft at_ < 65536 ∧
      Flags.fromKnx (mkControl fl ft at_) = .ok (mkFlags p rep sb ack ce hop ft) ∧
      (((mkControl fl ft at_ >>> 7) &&& 1 == 1) = (at_ == 1)) ∧
      ((mkControl fl ft at_ / 256 % 256) >>> 7 = ft) ∧ ((mkControl fl ft at_ % 256) >>> 7 = at_) := by
  have h := ctlOk_all p rep sb ack ce hop ⟨ft, hft⟩ ⟨at_, hat⟩
  unfold ctlOk at h
  split at h
  · cases h
  · rename_i fl hfl
    refine ⟨fl, hfl, ?_⟩
    simp only [Bool.and_eq_true, decide_eq_true_eq, beq_iff_eq] at h
    obtain ⟨⟨⟨⟨h1, h2⟩, h3⟩, h4⟩, h5⟩ := h
    exact ⟨h1, h2, h3, h4, h5⟩


end XknxVerif.CEMI
