/-
Helper lemmas for the tunnel lifecycle monitor (C25): prefix closure, invariant lifting for the
partial step function, and which tokens can change which part of the state.
-/
import XknxVerif.Model.TunnelLifecycle

namespace XknxVerif.TunnelLifecycle

theorem run?_append (s : St) (a b : List Obs) :
    run? s (a ++ b) = (run? s a).bind fun s' => run? s' b := by
  induction a generalizing s with
  | nil => simp [run?]
  | cons o os ih =>
    simp only [List.cons_append, run?]
    cases step? s o with
    | none => simp
    | some s' => simpa using ih s'

theorem run?_snoc (s : St) (a : List Obs) (o : Obs) :
    run? s (a ++ [o]) = (run? s a).bind fun s' => step? s' o := by
  rw [run?_append]
  congr 1; funext s'
  simp only [run?]
  cases step? s' o <;> rfl

/-- Invariant lifting: `Inv` holds initially and every accepted token preserves it. -/
theorem inv_run? (Inv : St → Prop)
    (hstep : ∀ s o s', Inv s → step? s o = some s' → Inv s') :
    ∀ (tr : List Obs) (s s' : St), Inv s → run? s tr = some s' → Inv s' := by
  intro tr
  induction tr with
  | nil => intro s s' h hr; simp only [run?, Option.some.injEq] at hr; exact hr ▸ h
  | cons o os ih =>
    intro s s' h hr
    simp only [run?] at hr
    cases hs : step? s o with
    | none => simp [hs] at hr
    | some s1 => rw [hs] at hr; exact ih s1 s' (hstep s o s1 h hs) hr

/-- Invariant relating the state to a fold over the trace seen so far. -/
theorem inv_run?_fold {α : Type} (f : α → Obs → α) (Inv : St → α → Prop)
    (hstep : ∀ s a o s', Inv s a → step? s o = some s' → Inv s' (f a o)) :
    ∀ (tr : List Obs) (s s' : St) (a : α), Inv s a → run? s tr = some s' → Inv s' (tr.foldl f a) := by
  intro tr
  induction tr with
  | nil => intro s s' a h hr; simp only [run?, Option.some.injEq] at hr; simpa using hr ▸ h
  | cons o os ih =>
    intro s s' a h hr
    simp only [run?] at hr
    cases hs : step? s o with
    | none => simp [hs] at hr
    | some s1 => rw [hs] at hr; exact ih s1 s' (f a o) (hstep s a o s1 h hs) hr


/-- The three ways a token is accepted: an owed callback, the optional SESSION_STATUS close, or a
regular step (`act`) on the state with `mayClose` reset and - if predicted - the prediction popped. -/
theorem step?_cases (s : St) (o : Obs) (s' : St) (h : step? s o = some s') :
    (∃ q qs, s.cbq = q :: qs ∧ o = ⟨q.1, .cb q.2.1 q.2.2⟩ ∧ s' = { s with cbq := qs }) ∨
    (s.cbq = [] ∧ s.mayClose = true ∧ o.lab = .frame .sclose 0 ∧ s' = { s with mayClose := false }) ∨
    (s.cbq = [] ∧ ∃ pd fp, (pd = s.pend ∨ ∃ p, s.pend = p :: pd) ∧
        act { s with mayClose := false, pend := pd } o fp = some s') := by
  unfold step? at h
  split at h
  · rename_i q qs hq
    split at h
    · rename_i ho
      simp only [Option.some.injEq] at h
      exact .inl ⟨q, qs, hq, by simpa using ho, h.symm⟩
    · simp at h
  · rename_i hq
    split at h
    · rename_i ho
      simp only [Option.some.injEq] at h
      simp only [Bool.and_eq_true, beq_iff_eq] at ho
      exact .inr (.inl ⟨hq, ho.1.1, ho.2, h.symm⟩)
    · refine .inr (.inr ⟨hq, ?_⟩)
      split at h
      · rename_i p ps hp
        split at h
        · exact ⟨ps, true, .inr ⟨p, hp⟩, h⟩
        · simp at h
      · rename_i hp
        exact ⟨s.pend, false, .inl rfl, by simpa [hp] using h⟩

/-! `notifyEff` touches only `cm`, `conn`, `cbq`. -/
@[simp] theorem notifyEff_kind (s : St) (t : Tag) (st : CS) : (notifyEff s t st).kind = s.kind := by
  unfold notifyEff; split <;> rfl
@[simp] theorem notifyEff_auto (s : St) (t : Tag) (st : CS) : (notifyEff s t st).auto = s.auto := by
  unfold notifyEff; split <;> rfl
@[simp] theorem notifyEff_ncb (s : St) (t : Tag) (st : CS) : (notifyEff s t st).ncb = s.ncb := by
  unfold notifyEff; split <;> rfl
@[simp] theorem notifyEff_closing (s : St) (t : Tag) (st : CS) : (notifyEff s t st).closing = s.closing := by
  unfold notifyEff; split <;> rfl
@[simp] theorem notifyEff_tup (s : St) (t : Tag) (st : CS) : (notifyEff s t st).tup = s.tup := by
  unfold notifyEff; split <;> rfl
@[simp] theorem notifyEff_sinit (s : St) (t : Tag) (st : CS) : (notifyEff s t st).sinit = s.sinit := by
  unfold notifyEff; split <;> rfl
@[simp] theorem notifyEff_chan (s : St) (t : Tag) (st : CS) : (notifyEff s t st).chan = s.chan := by
  unfold notifyEff; split <;> rfl
@[simp] theorem notifyEff_hb (s : St) (t : Tag) (st : CS) : (notifyEff s t st).hb = s.hb := by
  unfold notifyEff; split <;> rfl
@[simp] theorem notifyEff_rt (s : St) (t : Tag) (st : CS) : (notifyEff s t st).rt = s.rt := by
  unfold notifyEff; split <;> rfl
@[simp] theorem notifyEff_invseq (s : St) (t : Tag) (st : CS) : (notifyEff s t st).invseq = s.invseq := by
  unfold notifyEff; split <;> rfl
@[simp] theorem notifyEff_cRun (s : St) (t : Tag) (st : CS) : (notifyEff s t st).cRun = s.cRun := by
  unfold notifyEff; split <;> rfl
@[simp] theorem notifyEff_dRun (s : St) (t : Tag) (st : CS) : (notifyEff s t st).dRun = s.dRun := by
  unfold notifyEff; split <;> rfl
@[simp] theorem notifyEff_dWait (s : St) (t : Tag) (st : CS) : (notifyEff s t st).dWait = s.dWait := by
  unfold notifyEff; split <;> rfl
@[simp] theorem notifyEff_udone (s : St) (t : Tag) (st : CS) : (notifyEff s t st).udone = s.udone := by
  unfold notifyEff; split <;> rfl
@[simp] theorem notifyEff_resps (s : St) (t : Tag) (st : CS) : (notifyEff s t st).resps = s.resps := by
  unfold notifyEff; split <;> rfl
@[simp] theorem notifyEff_nextR (s : St) (t : Tag) (st : CS) : (notifyEff s t st).nextR = s.nextR := by
  unfold notifyEff; split <;> rfl
@[simp] theorem notifyEff_nextHb (s : St) (t : Tag) (st : CS) : (notifyEff s t st).nextHb = s.nextHb := by
  unfold notifyEff; split <;> rfl
@[simp] theorem notifyEff_nextI (s : St) (t : Tag) (st : CS) : (notifyEff s t st).nextI = s.nextI := by
  unfold notifyEff; split <;> rfl
@[simp] theorem notifyEff_pend (s : St) (t : Tag) (st : CS) : (notifyEff s t st).pend = s.pend := by
  unfold notifyEff; split <;> rfl
@[simp] theorem notifyEff_mayClose (s : St) (t : Tag) (st : CS) : (notifyEff s t st).mayClose = s.mayClose := by
  unfold notifyEff; split <;> rfl
@[simp] theorem notifyEff_closeTag (s : St) (t : Tag) (st : CS) : (notifyEff s t st).closeTag = s.closeTag := by
  unfold notifyEff; split <;> rfl
@[simp] theorem notifyEff_wloss (s : St) (t : Tag) (st : CS) : (notifyEff s t st).wloss = s.wloss := by
  unfold notifyEff; split <;> rfl

end XknxVerif.TunnelLifecycle
