/-
Helper lemmas for the tunnel lifecycle monitor (C25): prefix closure, invariant lifting for the
partial step function, and which tokens can change which part of the state.
-/
import XknxVerif.Model.TunnelLifecycle

namespace XknxVerif.TunnelLifecycle

theorem run?_append (s : St) (a b : List Obs) :
    run? s (a ++ b) = (run? s a).bind fun s' => run? s' b := by
  induction a generalizing s with
  | nil => simp [run?]
  | cons o os ih =>
    simp only [List.cons_append, run?]
    cases step? s o with
    | none => simp
    | some s' => simpa using ih s'

theorem run?_snoc (s : St) (a : List Obs) (o : Obs) :
    run? s (a ++ [o]) = (run? s a).bind fun s' => step? s' o := by
  rw [run?_append]
  congr 1; funext s'
  simp only [run?]
  cases step? s' o <;> rfl

/-- Invariant lifting: `Inv` holds initially and every accepted token preserves it. -/
theorem inv_run? (Inv : St → Prop)
    (hstep : ∀ s o s', Inv s → step? s o = some s' → Inv s') :
    ∀ (tr : List Obs) (s s' : St), Inv s → run? s tr = some s' → Inv s' := by
  intro tr
  induction tr with
  | nil => intro s s' h hr; simp only [run?, Option.some.injEq] at hr; exact hr ▸ h
  | cons o os ih =>
    intro s s' h hr
    simp only [run?] at hr
    cases hs : step? s o with
    | none => simp [hs] at hr
    | some s1 => rw [hs] at hr; exact ih s1 s' (hstep s o s1 h hs) hr

/-- Invariant relating the state to a fold over the trace seen so far. -/
theorem inv_run?_fold {α : Type} (f : α → Obs → α) (Inv : St → α → Prop)
    (hstep : ∀ s a o s', Inv s a → step? s o = some s' → Inv s' (f a o)) :
    ∀ (tr : List Obs) (s s' : St) (a : α), Inv s a → run? s tr = some s' → Inv s' (tr.foldl f a) := by
  intro tr
  induction tr with
  | nil => intro s s' a h hr; simp only [run?, Option.some.injEq] at hr; simpa using hr ▸ h
  | cons o os ih =>
    intro s s' a h hr
    simp only [run?] at hr
    cases hs : step? s o with
    | none => simp [hs] at hr
    | some s1 => rw [hs] at hr; exact ih s1 s' (f a o) (hstep s a o s1 h hs) hr


/-- The three ways a token is accepted: an owed callback, the optional SESSION_STATUS close, or a
regular step (`act`) on the state with `mayClose` reset and - if predicted - the prediction popped. -/
theorem step?_cases (s : St) (o : Obs) (s' : St) (h : step? s o = some s') :
    (∃ q qs, s.cbq = q :: qs ∧ o = ⟨q.1, .cb q.2.1 q.2.2⟩ ∧ s' = { s with cbq := qs }) ∨
    (s.cbq = [] ∧ s.mayClose = true ∧ o.lab = .frame .sclose 0 ∧ s' = { s with mayClose := false }) ∨
    (s.cbq = [] ∧ ∃ pd fp, (pd = s.pend ∨ ∃ p, s.pend = p :: pd) ∧
        act { s with mayClose := false, pend := pd } o fp = some s') := by
  unfold step? at h
  split at h
  · rename_i q qs hq
    split at h
    · rename_i ho
      simp only [Option.some.injEq] at h
      exact .inl ⟨q, qs, hq, by simpa using ho, h.symm⟩
    · simp at h
  · rename_i hq
    split at h
    · rename_i ho
      simp only [Option.some.injEq] at h
      simp only [Bool.and_eq_true, beq_iff_eq] at ho
      exact .inr (.inl ⟨hq, ho.1.1, ho.2, h.symm⟩)
    · refine .inr (.inr ⟨hq, ?_⟩)
      split at h
      · rename_i p ps hp
        split at h
        · exact ⟨ps, true, .inr ⟨p, hp⟩, h⟩
        · simp at h
      · rename_i hp
        exact ⟨s.pend, false, .inl rfl, by simpa [hp] using h⟩

/-! `notifyEff` touches only `cm`, `conn`, `cbq`. -/
@[simp] theorem notifyEff_kind (s : St) (t : Tag) (st : CS) : (notifyEff s t st).kind = s.kind := by
  unfold notifyEff; split <;> rfl
@[simp] theorem notifyEff_auto (s : St) (t : Tag) (st : CS) : (notifyEff s t st).auto = s.auto := by
  unfold notifyEff; split <;> rfl
@[simp] theorem notifyEff_ncb (s : St) (t : Tag) (st : CS) : (notifyEff s t st).ncb = s.ncb := by
  unfold notifyEff; split <;> rfl
@[simp] theorem notifyEff_closing (s : St) (t : Tag) (st : CS) : (notifyEff s t st).closing = s.closing := by
  unfold notifyEff; split <;> rfl
@[simp] theorem notifyEff_tup (s : St) (t : Tag) (st : CS) : (notifyEff s t st).tup = s.tup := by
  unfold notifyEff; split <;> rfl
@[simp] theorem notifyEff_sinit (s : St) (t : Tag) (st : CS) : (notifyEff s t st).sinit = s.sinit := by
  unfold notifyEff; split <;> rfl
@[simp] theorem notifyEff_chan (s : St) (t : Tag) (st : CS) : (notifyEff s t st).chan = s.chan := by
  unfold notifyEff; split <;> rfl
@[simp] theorem notifyEff_hb (s : St) (t : Tag) (st : CS) : (notifyEff s t st).hb = s.hb := by
  unfold notifyEff; split <;> rfl
@[simp] theorem notifyEff_rt (s : St) (t : Tag) (st : CS) : (notifyEff s t st).rt = s.rt := by
  unfold notifyEff; split <;> rfl
@[simp] theorem notifyEff_invseq (s : St) (t : Tag) (st : CS) : (notifyEff s t st).invseq = s.invseq := by
  unfold notifyEff; split <;> rfl
@[simp] theorem notifyEff_cRun (s : St) (t : Tag) (st : CS) : (notifyEff s t st).cRun = s.cRun := by
  unfold notifyEff; split <;> rfl
@[simp] theorem notifyEff_dRun (s : St) (t : Tag) (st : CS) : (notifyEff s t st).dRun = s.dRun := by
  unfold notifyEff; split <;> rfl
@[simp] theorem notifyEff_dWait (s : St) (t : Tag) (st : CS) : (notifyEff s t st).dWait = s.dWait := by
  unfold notifyEff; split <;> rfl
@[simp] theorem notifyEff_udone (s : St) (t : Tag) (st : CS) : (notifyEff s t st).udone = s.udone := by
  unfold notifyEff; split <;> rfl
@[simp] theorem notifyEff_resps (s : St) (t : Tag) (st : CS) : (notifyEff s t st).resps = s.resps := by
  unfold notifyEff; split <;> rfl
@[simp] theorem notifyEff_nextR (s : St) (t : Tag) (st : CS) : (notifyEff s t st).nextR = s.nextR := by
  unfold notifyEff; split <;> rfl
@[simp] theorem notifyEff_nextHb (s : St) (t : Tag) (st : CS) : (notifyEff s t st).nextHb = s.nextHb := by
  unfold notifyEff; split <;> rfl
@[simp] theorem notifyEff_nextI (s : St) (t : Tag) (st : CS) : (notifyEff s t st).nextI = s.nextI := by
  unfold notifyEff; split <;> rfl
@[simp] theorem notifyEff_pend (s : St) (t : Tag) (st : CS) : (notifyEff s t st).pend = s.pend := by
  unfold notifyEff; split <;> rfl
@[simp] theorem notifyEff_mayClose (s : St) (t : Tag) (st : CS) : (notifyEff s t st).mayClose = s.mayClose := by
  unfold notifyEff; split <;> rfl
@[simp] theorem notifyEff_closeTag (s : St) (t : Tag) (st : CS) : (notifyEff s t st).closeTag = s.closeTag := by
  unfold notifyEff; split <;> rfl
@[simp] theorem notifyEff_wloss (s : St) (t : Tag) (st : CS) : (notifyEff s t st).wloss = s.wloss := by
  unfold notifyEff; split <;> rfl


/-! ## Trace-level specification functions used in the statements of `Props/C25.lean`, and the invariants behind them

`liveReconnects`, `active`, `seenBy`, `changesOf`, `owed`, `noRepeat` are read off the trace alone (no model state);
`rtLive`, `rtDead`, `Inv2`, `Inv2S`, `Inv3` are the model-side invariants. -/
/-- Tactic used throughout: case analysis over every branch of `act`. -/
local macro "act_cases" h:ident : tactic =>
  `(tactic| ((repeat' split at $h:ident) <;> (try simp only [Option.some.injEq, reduceCtorEq] at $h:ident) <;>
      (try subst $h:ident)))

/-! ### (i) never two live reconnect attempts -/

/-- Reconnect tasks alive after a trace, read off the trace alone: created (`new:reconnect:id`) and
neither returned/cancelled (`rfin:id`, logged when the coroutine ends) nor reported done. -/
def liveStep (l : List Nat) (o : Obs) : List Nat :=
  match o.lab with
  | .newTask .reconnect id _ => id :: l
  | .rfin id => l.filter (· != id)
  | .endTask .reconnect id => l.filter (· != id)
  | _ => l

def liveReconnects (tr : List Obs) : List Nat := tr.foldl liveStep []

/-- The model's view: the reconnect slot, unless its coroutine already returned. -/
def rtLive (s : St) : List Nat :=
  match s.rt with
  | some r => if r.fin then [] else [r.id]
  | none => []

theorem live_act (s : St) (o : Obs) (fp : Bool) (s' : St) (h : act s o fp = some s') :
    rtLive s' = liveStep (rtLive s) o := by
  obtain ⟨t, lab⟩ := o
  cases lab <;> simp only [act] at h <;> act_cases h <;>
    (try simp_all [rtLive, liveStep]) <;> (try split) <;> (try simp_all) <;>
    (try (cases hrt : s.rt <;> simp_all)) <;> (try (subst_vars; simp))

theorem live_step (s : St) (o : Obs) (s' : St) (h : step? s o = some s') :
    rtLive s' = liveStep (rtLive s) o := by
  unfold step? at h
  split at h
  · split at h
    · rename_i q qs _ ho
      simp only [Option.some.injEq] at h
      subst h
      have : o = ⟨q.1, .cb q.2.1 q.2.2⟩ := by simpa using ho
      subst this
      simp [rtLive, liveStep]
    · simp at h
  · split at h
    · rename_i ho
      simp only [Option.some.injEq] at h
      subst h
      obtain ⟨t, lab⟩ := o
      simp only [Bool.and_eq_true, beq_iff_eq] at ho
      obtain ⟨_, hl⟩ := ho
      subst hl
      simp [rtLive, liveStep]
    · split at h
      · split at h
        · simpa [rtLive] using live_act _ o true s' h
        · simp at h
      · simpa [rtLive] using live_act _ o false s' h

def rtDead (s : St) : Bool :=
  match s.rt with
  | none => true
  | some r => r.cancelReq || r.fin

/-- What `disconnect()` has arranged while it runs / once it returned: the `_disconnecting` flag is set,
no user connect is running, the reconnect task (if any) is cancelled or finished; after it returned
the transport is closed as well. -/
def Inv2 (s : St) : Prop :=
  (s.dRun = true → s.closing = true ∧ s.cRun = false ∧ rtDead s = true) ∧
  (s.udone = true → s.tup = false ∧ s.closing = true ∧ s.cRun = false ∧ s.dWait = false ∧ rtDead s = true)

theorem inv2_act (s : St) (o : Obs) (fp : Bool) (s' : St) (hi : Inv2 s)
    (h : act s o fp = some s') : Inv2 s' := by
  obtain ⟨t, lab⟩ := o
  unfold Inv2 at hi ⊢
  cases lab <;> simp only [act] at h <;> act_cases h <;>
    (try simp_all [rtDead, inConn]) <;>
    (try (cases hrt : s.rt <;> simp_all)) <;> (try (cases t <;> simp_all))

theorem mayClose_act (s : St) (o : Obs) (fp : Bool) (s' : St) (hi : Inv2 s) (hm : s.mayClose = false)
    (h : act s o fp = some s') : s'.udone = true → s'.mayClose = false := by
  obtain ⟨t, lab⟩ := o
  unfold Inv2 at hi
  cases lab <;> simp only [act] at h <;> act_cases h <;> (try simp_all)

/-- A token that sends a frame, opens a transport, starts a connect attempt or creates a reconnect task. -/
def active (o : Obs) : Bool :=
  match o.lab with
  | .frame _ _ => true
  | .newTask .reconnect _ _ => true
  | .tconnect => true
  | .tconnected => true
  | .cstart => true
  | _ => false

theorem quiet_act (s : St) (o : Obs) (fp : Bool) (s' : St) (hi : Inv2 s) (hu : s.udone = true)
    (hc : o ≠ ⟨.c, .cstart⟩) (h : act s o fp = some s') : active o = false ∧ s'.udone = true := by
  obtain ⟨t, lab⟩ := o
  unfold Inv2 at hi
  cases lab <;> simp only [act] at h <;> act_cases h <;> (try simp_all [active, inConn, rtDead]) <;>
    (try (cases hrt : s.rt <;> simp_all)) <;> (try (cases t <;> simp_all))

def Inv2S (s : St) : Prop := Inv2 s ∧ (s.udone = true → s.mayClose = false)

theorem inv2S_step (s : St) (o : Obs) (s' : St) (hi : Inv2S s) (h : step? s o = some s') : Inv2S s' := by
  rcases step?_cases s o s' h with ⟨q, qs, _, _, rfl⟩ | ⟨_, _, _, rfl⟩ | ⟨_, pd, fp, _, ha⟩
  · exact hi
  · exact ⟨hi.1, fun _ => rfl⟩
  · have h0 : Inv2 { s with mayClose := false, pend := pd } := hi.1
    exact ⟨inv2_act _ o fp s' h0 ha, mayClose_act _ o fp s' h0 rfl ha⟩

theorem quiet_step (s : St) (o : Obs) (s' : St) (hi : Inv2S s) (hu : s.udone = true)
    (hc : o ≠ ⟨.c, .cstart⟩) (h : step? s o = some s') : active o = false ∧ s'.udone = true := by
  rcases step?_cases s o s' h with ⟨q, qs, _, rfl, rfl⟩ | ⟨_, hm, _, rfl⟩ | ⟨_, pd, fp, _, ha⟩
  · exact ⟨rfl, hu⟩
  · rw [hi.2 hu] at hm; exact absurd hm (by simp)
  · have h0 : Inv2 { s with mayClose := false, pend := pd } := hi.1
    exact quiet_act _ o fp s' h0 hu hc ha

theorem inv2S_init (k : Kind) (a : Bool) (n : Nat) : Inv2S (init k a n) := by
  simp [Inv2S, Inv2, init]

theorem quiet_run (post : List Obs) : ∀ (s s' : St), Inv2S s → s.udone = true →
    (∀ o ∈ post, o ≠ ⟨.c, .cstart⟩) → run? s post = some s' → ∀ o ∈ post, active o = false := by
  induction post with
  | nil => intro _ _ _ _ _ _ o ho; simp at ho
  | cons p ps ih =>
    intro s s' hi hu hc hr o ho
    simp only [run?] at hr
    cases hs : step? s p with
    | none => simp [hs] at hr
    | some s1 =>
      rw [hs] at hr
      have hq := quiet_step s p s1 hi hu (hc p (by simp)) hs
      rcases List.mem_cons.mp ho with rfl | ho'
      · exact hq.1
      · exact ih s1 s' (inv2S_step s p s1 hi hs) hq.2 (fun o h => hc o (List.mem_cons_of_mem _ h)) hr o ho'

/-- The state a callback invocation token `cb:i:X` reports to callback `i`. -/
def cbOf (i : Nat) (o : Obs) : Option CS :=
  match o.lab with
  | .cb j st => if j = i then some st else none
  | _ => none

/-- What callback `i` has been told, in order, read off the trace. -/
def seenBy (i : Nat) (tr : List Obs) : List CS := tr.foldl (fun l o => l ++ (cbOf i o).toList) []

/-- The real transitions of the reported state, read off the `notify` tokens (every call of
`connection_state_changed`, changed or not): (current state, transitions so far). -/
def chg (p : CS × List CS) (o : Obs) : CS × List CS :=
  match o.lab with
  | .notify st => if st = p.1 then p else (st, p.2 ++ [st])
  | _ => p

def changesOf (tr : List Obs) : List CS := (tr.foldl chg (.D, [])).2

def owed (i : Nat) (q : List (Tag × Nat × CS)) : List CS :=
  q.filterMap fun e => if e.2.1 = i then some e.2.2 else none

theorem owed_range (i n : Nat) (t : Tag) (st : CS) (h : i < n) :
    owed i ((List.range n).map fun j => (t, j, st)) = [st] := by
  induction n with
  | zero => omega
  | succ m ih =>
    rw [List.range_succ, List.map_append, owed, List.filterMap_append]
    by_cases hm : i < m
    · have := ih hm
      unfold owed at this
      rw [this]
      have : m ≠ i := by omega
      simp [this]
    · have : i = m := by omega
      subst this
      have : ∀ l : List Nat, (∀ j ∈ l, j < i) → (l.map fun j => (t, j, st)).filterMap
          (fun e => if e.2.1 = i then some e.2.2 else none) = [] := by
        intro l hl
        induction l with
        | nil => rfl
        | cons a l ih2 =>
          have ha : a ≠ i := by have := hl a (by simp); omega
          simp only [List.map_cons, List.filterMap_cons, ha, if_false]
          exact ih2 (fun j hj => hl j (List.mem_cons_of_mem _ hj))
      rw [this _ (fun j hj => List.mem_range.mp hj)]
      simp

theorem cm_act (s : St) (o : Obs) (fp : Bool) (s' : St) (h : act s o fp = some s') :
    s'.ncb = s.ncb ∧
    (match o.lab with
     | .notify st => if st = s.cm then s'.cm = s.cm ∧ s'.cbq = s.cbq
                     else s'.cm = st ∧ s'.cbq = (List.range s.ncb).map fun j => (o.tag, j, st)
     | .cb _ _ => False
     | _ => s'.cm = s.cm ∧ s'.cbq = s.cbq) := by
  obtain ⟨t, lab⟩ := o
  cases lab <;> simp only [act] at h <;> act_cases h <;> (try simp_all [notifyEff]) <;>
    (try (split <;> simp_all)) 

/-- Relation between the monitor state and what the trace so far says (for callback `i` of `n`). -/
def Inv3 (n i : Nat) (s : St) (a : (CS × List CS) × List CS) : Prop :=
  s.ncb = n ∧ s.cm = a.1.1 ∧ a.2 ++ owed i s.cbq = a.1.2

def fold3 (i : Nat) (a : (CS × List CS) × List CS) (o : Obs) : (CS × List CS) × List CS :=
  (chg a.1 o, a.2 ++ (cbOf i o).toList)

theorem inv3_step (n i : Nat) (hi : i < n) (s : St) (a : (CS × List CS) × List CS) (o : Obs) (s' : St)
    (h3 : Inv3 n i s a) (h : step? s o = some s') : Inv3 n i s' (fold3 i a o) := by
  obtain ⟨⟨cur, chs⟩, seen⟩ := a
  obtain ⟨hn, hc, hs⟩ := h3
  simp only at hc hs
  rcases step?_cases s o s' h with ⟨q, qs, hq, rfl, rfl⟩ | ⟨hq, _, hl, rfl⟩ | ⟨hq, pd, fp, _, ha⟩
  · rw [hq] at hs
    simp only [owed, List.filterMap_cons] at hs
    simp only [Inv3, fold3, chg, cbOf, owed]
    refine ⟨hn, hc, ?_⟩
    by_cases hqi : q.2.1 = i
    · simp only [hqi, if_true, Option.toList_some] at hs ⊢
      simpa [List.append_assoc] using hs
    · simp only [hqi, if_false, Option.toList_none, List.append_nil] at hs ⊢
      exact hs
  · simp only [Inv3, fold3, chg, cbOf, hl, Option.toList_none, List.append_nil]
    exact ⟨hn, hc, hs⟩
  · have hca := cm_act _ o fp s' ha
    obtain ⟨hn', hm⟩ := hca
    simp only at hn' hm
    rw [hq] at hs
    simp only [owed, List.filterMap_nil, List.append_nil] at hs
    obtain ⟨t, lab⟩ := o
    cases lab <;> simp only [Inv3, fold3, chg, cbOf, Option.toList_none, List.append_nil] at hm ⊢ <;>
      (try exact ⟨hn'.trans hn, hm.1.trans hc, by rw [hm.2, hq]; simpa [owed] using hs⟩)
    · rename_i st
      rw [← hc]
      split at hm
      · rename_i hst
        simp only [hst, if_true]
        exact ⟨hn'.trans hn, hm.1, by rw [hm.2, hq]; simpa [owed] using hs⟩
      · rename_i hst
        simp only [hst, if_false]
        refine ⟨hn'.trans hn, hm.1, ?_⟩
        rw [hm.2, hn, owed_range i n t st hi, hs]

theorem fold3_split (i : Nat) (tr : List Obs) : ∀ (p : CS × List CS) (l : List CS),
    tr.foldl (fold3 i) (p, l) = (tr.foldl chg p, tr.foldl (fun l o => l ++ (cbOf i o).toList) l) := by
  induction tr with
  | nil => intro p l; rfl
  | cons o os ih => intro p l; simp only [List.foldl_cons]; exact ih _ _

def noRepeat : List CS → Bool
  | a :: b :: t => a != b && noRepeat (b :: t)
  | _ => true

theorem noRepeat_snoc (l : List CS) (x y : CS) (h : noRepeat (l ++ [x]) = true) (hxy : x ≠ y) :
    noRepeat (l ++ [x] ++ [y]) = true := by
  induction l with
  | nil => simp [noRepeat, hxy]
  | cons a l ih =>
    cases l with
    | nil =>
      simp only [List.nil_append, List.cons_append, noRepeat, Bool.and_true, Bool.and_eq_true] at h ⊢
      exact ⟨h, by simpa using hxy⟩
    | cons b l =>
      simp only [List.cons_append, noRepeat, Bool.and_eq_true] at h ⊢
      exact ⟨h.1, by simpa using ih h.2⟩

theorem conn_act (s : St) (o : Obs) (fp : Bool) (s' : St) (hi : s.conn = (s.cm == .C))
    (h : act s o fp = some s') : s'.conn = (s'.cm == .C) := by
  obtain ⟨t, lab⟩ := o
  cases lab <;> simp only [act] at h <;> act_cases h <;> (try simp_all [notifyEff]) <;>
    (try (split <;> simp_all))


end XknxVerif.TunnelLifecycle
