/-
Round trip of the body classes (C21), part 3: IP Secure bodies; all bodies; the frame.
-/
import XknxVerif.Lemmas.KNXIPRoundtrip4

namespace XknxVerif.KNXIP
open XknxVerif.Generated.KNXIP

theorem length_eq_two {l : Bytes} (h : l.length = 2) : ∃ a b, l = [a, b] := by
  match l, h with
  | [a, b], _ => exact ⟨a, b, rfl⟩

theorem rt_secureWrapper (sid : Nat) (si ser tag enc mac : Bytes) (hsid : sid < 65536) (hsi : si.length = 6)
    (hser : ser.length = 6) (htag : tag.length = 2) (henc : 2 ≤ enc.length) (hmac : mac.length = 16) :
    BodyRT (.secureWrapper sid si ser tag enc mac) := by
  obtain ⟨a0, a1, a2, a3, a4, a5, rfl⟩ := length_eq_six hsi
  obtain ⟨b0, b1, b2, b3, b4, b5, rfl⟩ := length_eq_six hser
  obtain ⟨t0, t1, rfl⟩ := length_eq_two htag
  refine ⟨[sid / 256, sid % 256, a0, a1, a2, a3, a4, a5, b0, b1, b2, b3, b4, b5, t0, t1] ++ (enc ++ mac), ?_, ?_, ?_⟩
  · simp only [Body.serialize]
    rw [toBytes_two hsid]
    simp
  · simp [Body.calcLength, Const.securityInformationLength, Const.macLength, hmac]; omega
  · have hd : parseBody (Body.secureWrapper sid [a0, a1, a2, a3, a4, a5] [b0, b1, b2, b3, b4, b5] [t0, t1] enc mac).serviceType
        ([sid / 256, sid % 256, a0, a1, a2, a3, a4, a5, b0, b1, b2, b3, b4, b5, t0, t1] ++ (enc ++ mac)) =
        parseSecureWrapper ([sid / 256, sid % 256, a0, a1, a2, a3, a4, a5, b0, b1, b2, b3, b4, b5, t0, t1] ++ (enc ++ mac)) := by
      dispatch
    rw [hd]
    unfold parseSecureWrapper
    have hlen : ([sid / 256, sid % 256, a0, a1, a2, a3, a4, a5, b0, b1, b2, b3, b4, b5, t0, t1] ++ (enc ++ mac)).length
        - Const.macLength = enc.length + 16 := by
      simp [Const.macLength, hmac]
    rw [hlen]
    simp only [Const.secureWrapperMinimumLength, List.cons_append, List.nil_append, List.length_cons,
      List.length_append, hmac]
    rw [if_neg (by omega)]
    simp only [Bytes.slice, List.take_succ_cons, List.drop_succ_cons, List.drop_zero, List.take_zero, toNatBE_two,
      Nat.div_add_mod', take_append_length, drop_of_len rfl]

theorem rt_sessionRequest (ep : HPAI) (key : Bytes) (he : ep.wf = true) (hk : key.length = 32) :
    BodyRT (.sessionRequest ep key) := by
  obtain ⟨eb, hes, hel, hep⟩ := HPAI.roundtrip ep he
  refine ⟨eb ++ key, ?_, ?_, ?_⟩
  · simp only [Body.serialize]; rw [hes]; rfl
  · simp [Body.calcLength, Const.sessionRequestLength, hel, hk, Const.hpaiLength]
  · have hd : parseBody (Body.sessionRequest ep key).serviceType (eb ++ key) = parseSessionRequest (eb ++ key) := by
      dispatch
    rw [hd]
    unfold parseSessionRequest
    rw [if_neg (by simp [Const.sessionRequestLength, hel, hk, Const.hpaiLength]), hep, ok_bind, drop_of_len hel]

theorem rt_sessionResponse (sid : Nat) (key mac : Bytes) (hsid : sid < 65536) (hk : key.length = 32)
    (hm : mac.length = 16) : BodyRT (.sessionResponse sid key mac) := by
  refine ⟨[sid / 256, sid % 256] ++ (key ++ mac), ?_, ?_, ?_⟩
  · simp only [Body.serialize]; rw [toBytes_two hsid]; simp
  · simp [Body.calcLength, Const.sessionResponseLength, hk, hm]
  · have hd : parseBody (Body.sessionResponse sid key mac).serviceType ([sid / 256, sid % 256] ++ (key ++ mac)) =
        parseSessionResponse ([sid / 256, sid % 256] ++ (key ++ mac)) := by dispatch
    rw [hd]
    unfold parseSessionResponse
    rw [if_neg (by simp [Const.sessionResponseLength, hk, hm])]
    simp only [Bytes.slice, List.cons_append, List.nil_append, List.take_succ_cons, List.drop_succ_cons,
      List.drop_zero, List.take_zero, toNatBE_two, Nat.div_add_mod', take_of_len hk, drop_of_len hk]

theorem rt_sessionAuthenticate (uid : Nat) (mac : Bytes) (hu : uid < 256) (hm : mac.length = 16) :
    BodyRT (.sessionAuthenticate uid mac) := by
  refine ⟨[0, uid] ++ mac, ?_, ?_, ?_⟩
  · simp only [Body.serialize]
    rw [bytesOf_ok (by intro x hx; simp at hx; rcases hx with rfl | rfl <;> omega)]; rfl
  · simp [Body.calcLength, Const.sessionAuthenticateLength, hm]
  · have hd : parseBody (Body.sessionAuthenticate uid mac).serviceType ([0, uid] ++ mac) =
        parseSessionAuthenticate ([0, uid] ++ mac) := by dispatch
    rw [hd]
    unfold parseSessionAuthenticate
    rw [if_neg (by simp [Const.sessionAuthenticateLength, hm])]
    simp only [List.cons_append, List.nil_append, idx_cons_zero, idx_cons_succ, ok_bind, List.drop_succ_cons,
      List.drop_zero]

theorem rt_sessionStatus (st : Nat) (hst : st ∈ SecureSessionStatusCode.codes) : BodyRT (.sessionStatus st) := by
  have := sessionStatus_lt st hst
  refine ⟨[st, 0], ?_, ?_, ?_⟩
  · simp only [Body.serialize]
    exact bytesOf_ok (by intro x hx; simp at hx; rcases hx with rfl | rfl <;> omega)
  · rfl
  · have hd : parseBody (Body.sessionStatus st).serviceType [st, 0] = parseSessionStatus [st, 0] := by dispatch
    rw [hd]
    unfold parseSessionStatus
    rw [if_neg (by simp [Const.sessionStatusLength])]
    simp only [idx_cons_zero, ok_bind, enumOf_ok hst, exceptValue_ok]

theorem rt_timerNotify (t : Nat) (ser tag mac : Bytes) (ht : t < 256 ^ 6) (hser : ser.length = 6)
    (htag : tag.length = 2) (hm : mac.length = 16) : BodyRT (.timerNotify t ser tag mac) := by
  obtain ⟨b0, b1, b2, b3, b4, b5, rfl⟩ := length_eq_six hser
  obtain ⟨t0, t1, rfl⟩ := length_eq_two htag
  obtain ⟨c0, c1, c2, c3, c4, c5, hc⟩ := length_eq_six (Bytes.ofNatBE_length 6 t)
  have hval : Bytes.toNatBE [c0, c1, c2, c3, c4, c5] = t := by
    rw [← hc]; exact Bytes.toNatBE_ofNatBE 6 t ht
  refine ⟨[c0, c1, c2, c3, c4, c5, b0, b1, b2, b3, b4, b5, t0, t1] ++ mac, ?_, ?_, ?_⟩
  · simp only [Body.serialize]
    rw [toBytes_ok ht, hc]
    simp
  · simp [Body.calcLength, Const.timerNotifyLength, hm]
  · have hd : parseBody (Body.timerNotify t [b0, b1, b2, b3, b4, b5] [t0, t1] mac).serviceType
        ([c0, c1, c2, c3, c4, c5, b0, b1, b2, b3, b4, b5, t0, t1] ++ mac) =
        parseTimerNotify ([c0, c1, c2, c3, c4, c5, b0, b1, b2, b3, b4, b5, t0, t1] ++ mac) := by dispatch
    rw [hd]
    unfold parseTimerNotify
    rw [if_neg (by simp [Const.timerNotifyLength, hm])]
    simp only [Bytes.slice, List.cons_append, List.nil_append, List.take_succ_cons, List.drop_succ_cons,
      List.drop_zero, List.take_zero, hval]

end XknxVerif.KNXIP
