/-
Helper lemmas for C01 (and C02): the address model's fields in div/mod form,
parsing of canonical renderings, and "the regex branch cannot raise ValueError".
-/
import XknxVerif.Model.Address
import XknxVerif.Lemmas.Str

namespace XknxVerif.Address
open XknxVerif.Py XknxVerif.Py.Str XknxVerif.Generated.AddressConst XknxVerif.Generated.Unicode

/-! ### fields as div / mod -/

theorem gaMain_eq (raw : Nat) : gaMain raw = raw / 2048 % 32 := by
  unfold gaMain gaMaxMain; rw [Nat.shiftRight_eq_div_pow]; exact Nat.and_two_pow_sub_one_eq_mod _ 5

theorem gaMiddle_eq (raw : Nat) : gaMiddle raw = raw / 256 % 8 := by
  unfold gaMiddle gaMaxMiddle; rw [Nat.shiftRight_eq_div_pow]; exact Nat.and_two_pow_sub_one_eq_mod _ 3

theorem gaSub_long_eq (raw : Nat) : gaSub .long raw = raw % 256 := by
  unfold gaSub gaMaxSubLong; exact Nat.and_two_pow_sub_one_eq_mod _ 8

theorem gaSub_short_eq (raw : Nat) : gaSub .short raw = raw % 2048 := by
  unfold gaSub gaMaxSubShort; exact Nat.and_two_pow_sub_one_eq_mod _ 11

theorem iaArea_eq (raw : Nat) : iaArea raw = raw / 4096 % 16 := by
  unfold iaArea iaMaxArea; rw [Nat.shiftRight_eq_div_pow]; exact Nat.and_two_pow_sub_one_eq_mod _ 4

theorem iaMain_eq (raw : Nat) : iaMain raw = raw / 256 % 16 := by
  unfold iaMain iaMaxMain; rw [Nat.shiftRight_eq_div_pow]; exact Nat.and_two_pow_sub_one_eq_mod _ 4

theorem iaLine_eq (raw : Nat) : iaLine raw = raw % 256 := by
  unfold iaLine iaMaxLine; exact Nat.and_two_pow_sub_one_eq_mod _ 8

/-! ### pieces of the regex model on canonical text -/

/-- the int-string limit leaves room for every regex group (≤ 4 digits) and every 16-bit value -/
theorem limit_ok : 5 ≤ intMaxStrDigits := by decide

theorem dollarBody_of_last (t u : Str) (hu : u ≠ []) (h10 : ∀ c ∈ u, c ≠ 10) :
    dollarBody (t ++ u) = t ++ u := by
  unfold dollarBody
  have hl : (t ++ u).getLast? = some (u.getLast hu) := by
    rw [List.getLast?_append, List.getLast?_eq_some_getLast hu]; rfl
  rw [hl]
  split
  · rename_i heq
    injection heq with heq
    exact absurd heq (h10 _ (List.getLast_mem hu))
  · rfl

theorem dollarBody_dec_suffix (t : Str) (n : Nat) : dollarBody (t ++ dec n) = t ++ dec n :=
  dollarBody_of_last t (dec n) (dec_ne_nil n) (fun c hc => by have := dec_ascii n c hc; omega)

theorem grp_dec (lo hi n : Nat) (hlo : lo ≤ 1) (hhi : 0 < hi) (h : n < 10 ^ hi) : grp lo hi (dec n) = true := by
  unfold grp
  have h1 := dec_length_pos n
  have h2 := dec_length_le hi n hhi h
  simp only [Bool.and_eq_true, decide_eq_true_eq, List.all_eq_true]
  refine ⟨⟨by omega, h2⟩, ?_⟩
  intro c hc
  have := dec_ascii n c hc
  rw [reDigit?_eq, intDigit_ascii this.1 this.2]; rfl

theorem sep_not_mem_dec (sep n : Nat) (h : sep < 48) : sep ∉ dec n := by
  intro hm
  have := dec_ascii n sep hm
  omega

theorem intOrValueError_dec (n : Nat) (h : n < 100000) : intOrValueError (dec n) = .ok (n : Int) := by
  unfold intOrValueError
  rw [pyInt_dec n (Nat.le_trans (dec_length_le 5 n (by omega) (by omega)) limit_ok)]

/-- every text a `\d{lo,hi}` group can match (hi ≤ 5) converts with `int()` to a natural number -/
theorem intOrValueError_of_grp {lo hi : Nat} {x : Str} (hlo : 1 ≤ lo) (hhi : hi ≤ 5) (h : grp lo hi x = true) :
    ∃ n : Nat, intOrValueError x = .ok (n : Int) := by
  unfold grp at h
  simp only [Bool.and_eq_true, decide_eq_true_eq, List.all_eq_true] at h
  obtain ⟨⟨h1, h2⟩, h3⟩ := h
  have hne : x ≠ [] := by intro hx; subst hx; simp at h1; omega
  refine ⟨digitsVal (x.filterMap intDigit?), ?_⟩
  unfold intOrValueError
  rw [pyInt_digits x hne (fun c hc => by rw [← reDigit?_eq]; exact h3 c hc)
    (Nat.le_trans (Nat.le_trans h2 hhi) limit_ok)]

/-! ### `__string_to_int` on canonical text -/

theorem gaStringToInt_long (m mid sub : Nat) (hm : m ≤ 31) (hmid : mid ≤ 7) (hsub : sub ≤ 255) :
    gaStringToInt (dec m ++ [47] ++ dec mid ++ [47] ++ dec sub) = .ok ((m * 2048 + mid * 256 + sub : Nat) : Int) := by
  have hs : dec m ++ [47] ++ dec mid ++ [47] ++ dec sub = dec m ++ 47 :: (dec mid ++ 47 :: dec sub) := by simp
  have hsplit : splitOn 47 (dollarBody (dec m ++ [47] ++ dec mid ++ [47] ++ dec sub)) = [dec m, dec mid, dec sub] := by
    rw [dollarBody_dec_suffix, hs, splitOn_append_sep _ (sep_not_mem_dec 47 m (by omega)),
      splitOn_append_sep _ (sep_not_mem_dec 47 mid (by omega)), splitOn_of_not_mem (sep_not_mem_dec 47 sub (by omega))]
  unfold gaStringToInt gaRegexMatch
  rw [hsplit]
  simp only [grp_dec 1 2 m (by omega) (by omega) (by omega), grp_dec 1 2 mid (by omega) (by omega) (by omega),
    grp_dec 1 4 sub (by omega) (by omega) (by omega), Bool.and_self, if_true,
    intOrValueError_dec m (by omega), intOrValueError_dec mid (by omega), intOrValueError_dec sub (by omega),
    bind, Except.bind, Except.map, pure, Except.pure]
  rw [if_neg (by unfold gaMaxMain; omega), if_neg (by unfold gaMaxMiddle; omega), if_neg (by unfold gaMaxSubLong; omega)]
  congr 1

theorem gaStringToInt_short (m sub : Nat) (hm : m ≤ 31) (hsub : sub ≤ 2047) :
    gaStringToInt (dec m ++ [47] ++ dec sub) = .ok ((m * 2048 + sub : Nat) : Int) := by
  have hs : dec m ++ [47] ++ dec sub = dec m ++ 47 :: dec sub := by simp
  have hsplit : splitOn 47 (dollarBody (dec m ++ [47] ++ dec sub)) = [dec m, dec sub] := by
    rw [dollarBody_dec_suffix, hs, splitOn_append_sep _ (sep_not_mem_dec 47 m (by omega)),
      splitOn_of_not_mem (sep_not_mem_dec 47 sub (by omega))]
  unfold gaStringToInt gaRegexMatch
  rw [hsplit]
  simp only [grp_dec 1 2 m (by omega) (by omega) (by omega),
    grp_dec 1 4 sub (by omega) (by omega) (by omega), Bool.and_self, if_true,
    intOrValueError_dec m (by omega), intOrValueError_dec sub (by omega),
    bind, Except.bind, pure, Except.pure]
  rw [if_neg (by unfold gaMaxMain; omega), if_neg (by unfold gaMaxSubShort; omega)]
  congr 1

theorem iaStringToInt_canon (a m l : Nat) (ha : a ≤ 15) (hm : m ≤ 15) (hl : l ≤ 255) :
    iaStringToInt (dec a ++ [46] ++ dec m ++ [46] ++ dec l) = .ok ((a * 4096 + m * 256 + l : Nat) : Int) := by
  have hs : dec a ++ [46] ++ dec m ++ [46] ++ dec l = dec a ++ 46 :: (dec m ++ 46 :: dec l) := by simp
  have hsplit : splitOn 46 (dollarBody (dec a ++ [46] ++ dec m ++ [46] ++ dec l)) = [dec a, dec m, dec l] := by
    rw [dollarBody_dec_suffix, hs, splitOn_append_sep _ (sep_not_mem_dec 46 a (by omega)),
      splitOn_append_sep _ (sep_not_mem_dec 46 m (by omega)), splitOn_of_not_mem (sep_not_mem_dec 46 l (by omega))]
  unfold iaStringToInt iaRegexMatch
  rw [hsplit]
  simp only [grp_dec 1 2 a (by omega) (by omega) (by omega), grp_dec 1 2 m (by omega) (by omega) (by omega),
    grp_dec 1 3 l (by omega) (by omega) (by omega), Bool.and_self, if_true,
    intOrValueError_dec a (by omega), intOrValueError_dec m (by omega), intOrValueError_dec l (by omega),
    bind, Except.bind, pure, Except.pure]
  rw [if_neg (by unfold iaMaxArea; omega), if_neg (by unfold iaMaxMain; omega), if_neg (by unfold iaMaxLine; omega)]
  congr 1

theorem rangeCheck_nat (n : Nat) (h : n < 65536) : rangeCheck (n : Int) = .ok n := by
  unfold rangeCheck
  rw [if_pos (by omega)]
  simp

theorem rangeCheck_ok {raw : Int} {a : Nat} (h : rangeCheck raw = .ok a) : a < 65536 ∧ (a : Int) = raw := by
  unfold rangeCheck at h
  split at h
  · injection h with h; omega
  · exact absurd h (by simp)

theorem rangeCheck_err {raw : Int} {e : Err} (h : rangeCheck raw = .error e) : e = .parse := by
  unfold rangeCheck at h
  split at h
  · exact absurd h (by simp)
  · injection h with h; exact h.symm

theorem bind_rangeCheck_err {x : Except Err Int} {e : Err} (h : x >>= rangeCheck = .error e) :
    x = .error e ∨ e = .parse := by
  cases x with
  | error e' => left; simpa [bind, Except.bind] using h
  | ok r => right; exact rangeCheck_err (by simpa [bind, Except.bind] using h)

theorem bind_rangeCheck_ok {x : Except Err Int} {a : Nat} (h : x >>= rangeCheck = .ok a) :
    ∃ r, x = .ok r ∧ rangeCheck r = .ok a := by
  cases x with
  | error e' => simp [bind, Except.bind] at h
  | ok r => exact ⟨r, rfl, by simpa [bind, Except.bind] using h⟩

theorem not_isdigit_with_sep (t u : Str) (sep : Nat) (hs : isdigitChar sep = false) :
    isdigit (t ++ [sep] ++ u) = false :=
  isdigit_false_of_mem (c := sep) (by simp) hs

/-! ### the regex branch never leaks a ValueError -/

theorem gaRegexMatch_some {s a c : Str} {mid : Option Str} (h : gaRegexMatch s = some (a, mid, c)) :
    grp 1 2 a = true ∧ (∀ b, mid = some b → grp 1 2 b = true) ∧ grp 1 4 c = true := by
  unfold gaRegexMatch at h
  split at h
  · split at h
    · rename_i hg
      simp only [Bool.and_eq_true] at hg
      simp only [Option.some.injEq, Prod.mk.injEq] at h
      obtain ⟨h1, h2, h3⟩ := h
      subst h1 h2 h3
      exact ⟨hg.1, fun b hb => (by cases hb), hg.2⟩
    · cases h
  · split at h
    · rename_i hg
      simp only [Bool.and_eq_true] at hg
      simp only [Option.some.injEq, Prod.mk.injEq] at h
      obtain ⟨h1, h2, h3⟩ := h
      subst h1 h2 h3
      exact ⟨hg.1.1, fun b hb => (by injection hb with hb; subst hb; exact hg.1.2), hg.2⟩
    · cases h
  · cases h

theorem iaRegexMatch_some {s a b c : Str} (h : iaRegexMatch s = some (a, b, c)) :
    grp 1 2 a = true ∧ grp 1 2 b = true ∧ grp 1 3 c = true := by
  unfold iaRegexMatch at h
  split at h
  · split at h
    · rename_i hg
      simp only [Bool.and_eq_true] at hg
      simp only [Option.some.injEq, Prod.mk.injEq] at h
      obtain ⟨h1, h2, h3⟩ := h
      subst h1 h2 h3
      exact ⟨hg.1.1, hg.1.2, hg.2⟩
    · cases h
  · cases h

theorem gaStringToInt_err {s : Str} {e : Err} (h : gaStringToInt s = .error e) : e = .parse := by
  unfold gaStringToInt at h
  split at h
  · injection h with h; exact h.symm
  · rename_i a mid c hm
    obtain ⟨ga, gm, gc⟩ := gaRegexMatch_some hm
    obtain ⟨na, hna⟩ := intOrValueError_of_grp (by omega) (by omega) ga
    obtain ⟨nc, hnc⟩ := intOrValueError_of_grp (by omega) (by omega) gc
    cases mid with
    | none =>
      simp only [hna, hnc, bind, Except.bind, pure, Except.pure] at h
      repeat' split at h
      all_goals first | (injection h with h; exact h.symm) | cases h
    | some b =>
      obtain ⟨nb, hnb⟩ := intOrValueError_of_grp (by omega) (by omega) (gm b rfl)
      simp only [hna, hnb, hnc, bind, Except.bind, Except.map, pure, Except.pure] at h
      repeat' split at h
      all_goals first | (injection h with h; exact h.symm) | cases h

theorem iaStringToInt_err {s : Str} {e : Err} (h : iaStringToInt s = .error e) : e = .parse := by
  unfold iaStringToInt at h
  split at h
  · injection h with h; exact h.symm
  · rename_i a b c hm
    obtain ⟨ga, gb, gc⟩ := iaRegexMatch_some hm
    obtain ⟨na, hna⟩ := intOrValueError_of_grp (by omega) (by omega) ga
    obtain ⟨nb, hnb⟩ := intOrValueError_of_grp (by omega) (by omega) gb
    obtain ⟨nc, hnc⟩ := intOrValueError_of_grp (by omega) (by omega) gc
    simp only [hna, hnb, hnc, bind, Except.bind, pure, Except.pure] at h
    repeat' split at h
    all_goals first | (injection h with h; exact h.symm) | cases h

theorem digitString_err {s : Str} {e : Err} (h : digitString s = .error e) : e = .parse := by
  unfold digitString at h
  split at h
  · cases h
  · injection h with h; exact h.symm

/-! ### internal group addresses -/

/-- a normalised internal address text: "i-" followed by a non-empty stripped rest -/
def IgaRaw (r : Str) : Prop := ∃ q, r = 105 :: 45 :: q ∧ q ≠ [] ∧ strip q = q

theorem igaParse_str_raw (s r : Str) (h : igaParse (.str s) = .ok r) : IgaRaw r := by
  unfold igaParse at h
  simp only at h
  split at h
  · rename_i c0 c1 rest
    split at h
    · cases h
    · generalize (if (c1 == 45 || c1 == 95) = true then 2 else 1) = pl at h
      split at h
      · cases h
      · rename_i hne
        injection h with h
        refine ⟨_, h.symm, ?_, strip_idem _⟩
        intro he
        apply hne
        rw [he]; rfl
  · cases h

theorem igaParse_of_raw (r : Str) (h : IgaRaw r) : igaParse (.str r) = .ok r := by
  obtain ⟨q, rfl, hq, hs⟩ := h
  have hne : q.isEmpty = false := by cases q <;> simp_all
  have hi : 105 ∈ XknxVerif.Generated.Unicode.lowerIsI := by decide
  simp [igaParse, hi, hs, hne]

end XknxVerif.Address
