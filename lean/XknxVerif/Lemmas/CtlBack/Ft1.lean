import XknxVerif.Lemmas.CtlBack.Def
namespace XknxVerif.CEMI
theorem ctlBackOk_ft1 : ∀ a b : Fin 64, ctlBackOk (a.val * 64 + b.val) 1 = true := by decide +kernel
end XknxVerif.CEMI
