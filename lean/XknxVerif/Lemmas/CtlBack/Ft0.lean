import XknxVerif.Lemmas.CtlBack.Def
namespace XknxVerif.CEMI
theorem ctlBackOk_ft0 : ∀ a b : Fin 64, ctlBackOk (a.val * 64 + b.val) 0 = true := by decide +kernel
end XknxVerif.CEMI
