/-
Re-serialising a parsed control field: definition of the finite check (split over two files for
parallel kernel evaluation: 2 × 4096 cases).
-/
import XknxVerif.Model.CEMI

namespace XknxVerif.CEMI

/-- For the control field `c = 16·q` (Extended Frame Format STANDARD) and a derived frame type `ft`:
serialising the parsed flags and OR-ing in `ft` and the parsed address-type bit gives a 16-bit value
whose low octet equals the received one and whose high octet equals it except for the frame-type
bit and the reserved bit 6. -/
def ctlBackOk (q : Nat) (ft : Nat) : Bool :=
  let c := q * 16
  match Flags.fromKnx c with
  | .error _ => false
  | .ok f =>
    f.frameFormat == 0 &&
    match f.toKnx with
    | .error _ => false
    | .ok fl =>
      let ctl := fl ||| (ft <<< 15) ||| ((if (c >>> 7) &&& 1 == 1 then 1 else 0) <<< 7)
      decide (ctl < 65536) && (ctl % 256 == c % 256) && ((ctl / 256 % 256) % 64 == (c / 256 % 256) % 64)
        && ((ctl / 256 % 256) >>> 7 == ft)

end XknxVerif.CEMI
