/-
Telegram-queue monitor: the ghost logs (`puts`, `handled`, `txLog`) — what each step appends,
rate-limit spacing of `txLog`, and the put-order relation.  Core Lean only.
-/
import XknxVerif.Lemmas.TelegramQueueOrder

namespace XknxVerif.TelegramQueue
open XknxVerif.Monitor

/-! ### what a step appends to the logs -/

def txOf (now : Nat) : Obs → List (Nat × Nat)
  | .tx k => [(k, now)]
  | _ => []

def putOf : Obs → List Tg
  | .put k kind dev => [⟨k, kind, dev⟩]
  | _ => []

theorem logs_step {s s' : State} {o : Obs} (h : step? s o = some s') :
    s'.txLog = s.txLog ++ txOf s.now o ∧ s'.puts = s.puts ++ putOf o ∧ s'.rate = s.rate ∧ s'.ncb = s.ncb := by
  cases o <;> simp only [step?] at h <;> (repeat' split at h) <;>
    (first | (simp at h; done) | (injection h with h; subst h; simp_all [txOf, putOf]))

/-! ### spacing -/

def SpacedLog (rate : Nat) : List (Nat × Nat) → Prop
  | [] => True
  | [_] => True
  | a :: b :: r => (rate = 0 ∨ (a.2 ≤ b.2 ∧ usPerSec ≤ (b.2 - a.2) * rate)) ∧ SpacedLog rate (b :: r)

theorem spacedLog_append (rate : Nat) (x : Nat × Nat) :
    ∀ (l : List (Nat × Nat)), SpacedLog rate l →
      (∀ a, l.getLast? = some a → rate = 0 ∨ (a.2 ≤ x.2 ∧ usPerSec ≤ (x.2 - a.2) * rate)) →
      SpacedLog rate (l ++ [x])
  | [], _, _ => by simp [SpacedLog]
  | [a], _, h => by
    simp only [List.cons_append, List.nil_append, SpacedLog, and_true]
    exact h a rfl
  | a :: b :: r, hs, h => by
    simp only [List.cons_append, SpacedLog] at hs ⊢
    refine ⟨hs.1, ?_⟩
    have := spacedLog_append rate x (b :: r) hs.2 (by
      intro a' ha'; apply h a'; simpa [List.getLast?_cons_cons] using ha')
    simpa using this

structure TInv (s : State) : Prop where
  last : s.lastTx = s.txLog.getLast?.map Prod.snd
  spaced : SpacedLog s.rate s.txLog

theorem tinv_init (rate ncb : Nat) : TInv (init rate ncb) := by
  constructor <;> (unfold init; simp [SpacedLog])

theorem tinv_step (s : State) (o : Obs) (s' : State) (ht : TInv s) (h : step? s o = some s') : TInv s' := by
  obtain ⟨t1, t2⟩ := ht
  cases o with
  | tx k =>
    simp only [step?] at h
    split at h
    · split at h
      · rename_i hcond
        injection h with h; subst h
        constructor
        · simp
        · simp only
          apply spacedLog_append _ _ _ t2
          intro a ha
          have hsp := hcond.2
          rw [t1, ha] at hsp
          simp only [Option.map_some, spaced, Bool.or_eq_true, beq_iff_eq, Bool.and_eq_true,
            decide_eq_true_eq] at hsp
          exact hsp
      · simp at h
    · simp at h
  | _ =>
    simp only [step?] at h
    repeat' split at h
    all_goals (first | (simp at h; done) | (injection h with h; subst h; exact ⟨t1, t2⟩))

/-! ### put order -/

def outK (t : Tg) : List Nat := if t.kind = .out then [t.k] else []

def mainOut : List Item → List Nat
  | [] => []
  | .tg t :: r => outK t ++ mainOut r
  | .stop :: r => mainOut r

def qOut : List Tg → List Nat
  | [] => []
  | t :: r => outK t ++ qOut r

def consOut : Cons → List Nat
  | .hold t => outK t
  | _ => []

def awaiting : Lim → List Nat
  | .sending t false => [t.k]
  | _ => []

theorem mainOut_append (a b : List Item) : mainOut (a ++ b) = mainOut a ++ mainOut b := by
  induction a with
  | nil => rfl
  | cons x r ih => cases x <;> simp [mainOut, ih]

theorem qOut_append (a b : List Tg) : qOut (a ++ b) = qOut a ++ qOut b := by
  induction a with
  | nil => rfl
  | cons x r ih => simp [qOut, ih]

@[simp] theorem awaiting_settlePost (t : Tg) (p : Bool) (c : List Nat) : awaiting (settlePost t p c) = [] := by
  unfold settlePost; split <;> rfl
@[simp] theorem awaiting_settleClosing (t : Tg) (a b : Bool) : awaiting (settleClosing t a b) = [] := by
  cases a <;> cases b <;> rfl

structure OInv (s : State) : Prop where
  order : qOut s.puts = s.handled ++ qOut s.outQ ++ consOut s.cons ++ mainOut s.mainQ
  tx : ∃ h0, s.handled = h0 ++ awaiting s.lim ∧ (s.txLog.map Prod.fst).Sublist h0

theorem oinv_init (rate ncb : Nat) : OInv (init rate ncb) := by
  constructor
  · unfold init; simp [qOut, consOut, mainOut]
  · exact ⟨[], by unfold init; simp [awaiting], by unfold init; simp⟩

theorem oinv_step (s : State) (o : Obs) (s' : State) (hk : KP s) (ho : OInv s) (h : step? s o = some s') :
    OInv s' := by
  obtain ⟨o1, h0, o2, o3⟩ := ho
  cases o with
  | put k kind dev =>
    simp only [step?] at h; split at h
    · injection h with h; subst h
      refine ⟨?_, h0, o2, o3⟩
      simp only [qOut_append, mainOut_append, o1, qOut, mainOut, List.append_nil, List.append_assoc]
    · simp at h
  | stop =>
    simp only [step?] at h
    injection h with h; subst h
    refine ⟨?_, h0, o2, o3⟩
    simp only [mainOut_append, o1, mainOut, List.append_nil]
  | adv t =>
    simp only [step?] at h; split at h
    · injection h with h; subst h; exact ⟨o1, h0, o2, o3⟩
    · simp at h
  | gm x =>
    simp only [step?] at h
    split at h
    · rename_i t rest hc hq
      split at h
      · split at h
        · rename_i hkind
          injection h with h; subst h
          refine ⟨?_, h0, o2, o3⟩
          rw [o1, hc, hq]
          simp [consOut, mainOut, outK, hkind]
        · injection h with h; subst h
          refine ⟨?_, h0, o2, o3⟩
          rw [o1, hc, hq]
          simp [consOut, mainOut]
      · simp at h
    · rename_i rest hc hq
      split at h
      · injection h with h; subst h
        refine ⟨?_, h0, o2, o3⟩
        rw [o1, hc, hq]
        simp [consOut, mainOut]
      · simp at h
    · simp at h
  | mv x =>
    simp only [step?] at h
    split at h
    · rename_i t hc
      split at h
      · injection h with h; subst h
        refine ⟨?_, h0, o2, o3⟩
        rw [o1, hc]
        simp [consOut, qOut_append, qOut]
      · simp at h
    · rename_i hc
      split at h
      · injection h with h; subst h
        refine ⟨?_, h0, o2, o3⟩
        rw [o1, hc]
        simp [consOut]
      · simp at h
    · simp at h
  | go x =>
    simp only [step?] at h
    split at h
    · rename_i t rest hl hq
      split at h
      · split at h
        · rename_i hkind
          injection h with h; subst h
          refine ⟨?_, h0, ?_, o3⟩
          · rw [o1, hq]; simp [qOut, outK, hkind]
          · rw [hl] at o2; simpa [awaiting] using o2
        · rename_i hkind
          injection h with h; subst h
          have hti : t.kind ≠ .inc := hk.outQ_kind t (by simp [hq])
          have hout : t.kind = .out := by cases hk' : t.kind <;> simp_all
          refine ⟨?_, s.handled, ?_, ?_⟩
          · rw [o1, hq]; simp [qOut, outK, hout]
          · simp [awaiting]
          · rw [hl] at o2; simp only [awaiting, List.append_nil] at o2; rw [o2]; exact o3
      · simp at h
    · rename_i hl hq
      split at h
      · injection h with h; subst h
        refine ⟨o1, h0, ?_, o3⟩
        rw [hl] at o2; simpa [awaiting] using o2
      · simp at h
    · simp at h
  | tx k =>
    simp only [step?] at h
    split at h
    · rename_i t hl
      split at h
      · rename_i hcond
        injection h with h; subst h
        refine ⟨o1, h0 ++ [t.k], ?_, ?_⟩
        · rw [hl] at o2; simpa [awaiting] using o2
        · simp only [List.map_append, List.map_cons, List.map_nil]
          rw [hcond.1]
          exact List.Sublist.append o3 (List.Sublist.refl _)
      · simp at h
    · simp at h
  | se k oc =>
    simp only [step?] at h
    split at h
    · rename_i t tx hl
      split at h
      · injection h with h; subst h
        refine ⟨o1, h0 ++ awaiting (.sending t tx), ?_, ?_⟩
        · rw [hl] at o2
          by_cases hoc : oc = .ok <;> simp [hoc, awaiting, o2]
        · exact List.Sublist.trans o3 (List.sublist_append_left _ _)
      · simp at h
    · simp at h
  | cb k j =>
    simp only [step?] at h
    repeat' split at h
    all_goals (first | (simp at h; done) | skip)
    all_goals (injection h with h; subst h)
    all_goals (refine ⟨?_, h0, ?_, o3⟩ <;> simp_all [consOut, awaiting])
  | proc k e =>
    simp only [step?] at h
    repeat' split at h
    all_goals (first | (simp at h; done) | skip)
    all_goals (injection h with h; subst h)
    all_goals (refine ⟨?_, h0, ?_, o3⟩ <;> simp_all [consOut, awaiting])
  | dmc =>
    simp only [step?] at h
    repeat' split at h
    all_goals (first | (simp at h; done) | skip)
    all_goals (injection h with h; subst h)
    all_goals (refine ⟨?_, h0, ?_, o3⟩ <;> simp_all [consOut, awaiting])
  | dml =>
    simp only [step?] at h
    repeat' split at h
    all_goals (first | (simp at h; done) | skip)
    all_goals (injection h with h; subst h)
    all_goals (refine ⟨?_, h0, ?_, o3⟩ <;> simp_all [consOut, awaiting])
  | dol =>
    simp only [step?] at h
    repeat' split at h
    all_goals (first | (simp at h; done) | skip)
    all_goals (injection h with h; subst h)
    all_goals (refine ⟨?_, h0, ?_, o3⟩ <;> simp_all [consOut, awaiting])
  | join =>
    simp only [step?] at h; split at h
    · injection h with h; subst h; exact ⟨o1, h0, o2, o3⟩
    · simp at h
  | stopped =>
    simp only [step?] at h; split at h
    · injection h with h; subst h; exact ⟨o1, h0, o2, o3⟩
    · simp at h

end XknxVerif.TelegramQueue
