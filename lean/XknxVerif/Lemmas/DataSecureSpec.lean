/-
Lemmas relating the xknx-shaped Data Secure model to the specification-shaped
one (for Props/C19).  Core Lean only.
-/
import XknxVerif.Lemmas.DataSecure
import XknxVerif.Model.DataSecureSpec

namespace XknxVerif.DataSecure
open XknxVerif.Crypto
open XknxVerif.Generated.DataSecure (algAuth algEnc svcData apciSecHigh apciSecLow sequenceNumberMax)

/-! ### blocks / padding with a leading full block -/

theorem pad16_cons_block (b r : Bytes) (hb : b.length = 16) : pad16 (b ++ r) = b ++ pad16 r := by
  unfold pad16
  have : (b ++ r).length % 16 = r.length % 16 := by simp [hb, Nat.add_mod_left]
  rw [this]
  split
  · rfl
  · simp [List.append_assoc]

theorem nblocks_add16 (n : Nat) : nblocks (16 + n) = nblocks n + 1 := by
  unfold nblocks; omega

theorem blocks16_cons_block (b r : Bytes) (hb : b.length = 16) : blocks16 (b ++ r) = b :: blocks16 r := by
  unfold blocks16
  rw [List.length_append, hb, nblocks_add16, List.range_succ_eq_map, List.map_cons, List.map_map]
  congr 1
  · simp [hb]
  · apply List.map_congr_left
    intro i _
    simp only [Function.comp]
    have : 16 * (i + 1) = b.length + 16 * i := by omega
    rw [this, List.drop_append]
    have h0 : List.drop (b.length + 16 * i) b = [] := List.drop_eq_nil_of_le (by omega)
    have h1 : b.length + 16 * i - b.length = 16 * i := by omega
    rw [h0, h1]
    rfl

/-- xknx's `calculate_message_authentication_code_cbc` equals the textbook recurrence
started with `B₀` (for a 16-octet `block_0`). -/
theorem cbcLast_macInput (E : BlockFn) (hE : E.Len16) (key b0 ad p : Bytes) (hb : b0.length = 16) :
    cbcLast E key (pad16 (macInput b0 ad p)) =
      cbcMac E key (b0 :: blocks16 (pad16 (Bytes.ofNatBE 2 ad.length ++ ad ++ p))) := by
  have h1 : macInput b0 ad p = b0 ++ (Bytes.ofNatBE 2 ad.length ++ ad ++ p) := by
    simp [macInput, List.append_assoc]
  rw [h1, pad16_cons_block _ _ hb, cbcLast_eq_cbcMac E hE, blocks16_cons_block _ _ hb]
  intro h
  have := congrArg List.length h
  simp [hb] at this

/-! ### control octets: `|||` in the code, `+` in the specification -/

theorem atype_eff : ∀ e : Fin 16, (0x80 ||| e.val) = 0x80 + e.val ∧ (0 ||| e.val) = 0 + e.val := by
  decide

theorem tpci_or3 : ∀ t : Fin 64, (4 * t.val ||| 3) = 4 * t.val + 3 := by decide

theorem tpci_or3' (t : Nat) (h : t < 256) (h4 : t % 4 = 0) : (t ||| 3) = t + 3 := by
  have := tpci_or3 ⟨t / 4, by omega⟩
  have ht : 4 * (t / 4) = t := by omega
  simpa [ht] using this

/-- The algorithm bits can be read back from the SCF octet. -/
theorem scfAlgorithm_toKnx : ∀ (ta sb : Bool) (alg svc : Fin 8),
    Spec.scfAlgorithm (Scf.toKnx ⟨ta, alg.val, sb, svc.val⟩) = alg.val := by decide

theorem scf_toKnx_lt : ∀ (ta sb : Bool) (alg svc : Fin 8), Scf.toKnx ⟨ta, alg.val, sb, svc.val⟩ < 256 := by
  decide

/-- `block_0` inputs of a frame as xknx builds them. -/
def ctxOf (sa da : Nat) (group : Bool) (eff tpci : Nat) : Ctx :=
  ⟨Bytes.ofNatBE 2 sa ++ Bytes.ofNatBE 2 da, if group then 0x80 else 0, eff, tpci⟩

/-- The inputs the property quantifies over: an SCF holding one of the two
algorithms and a 3-bit service, a 48-bit sequence number, a 4-bit extended
frame format, the TPCI octet of a data TPDU (low two bits clear), an APDU of at
most 255 octets. Addresses and key are unrestricted. -/
structure Inputs (scf : Scf) (seq eff tpci : Nat) (apdu : Bytes) : Prop where
  hAlg : scf.algorithm = algAuth ∨ scf.algorithm = algEnc
  hSvc : scf.service < 8
  hSeq : seq < 2 ^ 48
  hEff : eff < 16
  hTpci : tpci < 256
  hData : tpci % 4 = 0
  hLen : apdu.length ≤ 255

theorem B0_length (seq sa da : Nat) (group : Bool) (eff tpci q : Nat) :
    (Spec.B0 seq sa da group eff tpci q).length = 16 := by
  simp [Spec.B0, Bytes.ofNatBE_length]

/-- xknx's `block_0` is the specification's B₀. -/
theorem block0_eq_B0 (seq sa da : Nat) (group : Bool) (eff tpci q : Nat)
    (he : eff < 16) (ht : tpci < 256) (h4 : tpci % 4 = 0) (hq : q < 256) :
    block0 (Bytes.ofNatBE 6 seq) (ctxOf sa da group eff tpci) q
      = .ok (Spec.B0 seq sa da group eff tpci q) := by
  have h1 : ((if group then 0x80 else 0) ||| eff) = (if group then 0x80 else 0x00) + eff := by
    have := atype_eff ⟨eff, he⟩
    cases group
    · simp
    · simpa using this.1
  have h2 : (tpci ||| apciSecHigh) = tpci + 0x03 := tpci_or3' tpci ht h4
  have h3 : apciSecLow = 0xF1 := rfl
  have hb : (if group then 0x80 else 0x00) + eff < 256 := by cases group <;> simp <;> omega
  unfold block0 bytesOf ctxOf
  simp only [h1, h2, h3]
  have : ([0, (if group then 0x80 else 0x00) + eff, tpci + 0x03, 0xF1, 0, q].all (· < 256)) = true := by
    simp only [List.all_cons, List.all_nil, Bool.and_true, Bool.and_eq_true, decide_eq_true_eq]
    omega
  rw [if_pos this]
  simp [Spec.B0, List.append_assoc]

theorem counter0_eq_Ctr0 (seq sa da : Nat) :
    counter0 (Bytes.ofNatBE 6 seq) (Bytes.ofNatBE 2 sa ++ Bytes.ofNatBE 2 da) = Spec.Ctr0 seq sa da := by
  simp [counter0, Spec.Ctr0, List.append_assoc]

theorem Ctr0_eq_pre (seq sa da : Nat) :
    Spec.Ctr0 seq sa da =
      (Bytes.ofNatBE 6 seq ++ Bytes.ofNatBE 2 sa ++ Bytes.ofNatBE 2 da ++ [0, 0, 0, 0, 1]) ++ [0] := by
  simp [Spec.Ctr0, List.append_assoc]

theorem tag_length (E : BlockFn) (hE : E.Len16) (key b0 a p : Bytes) :
    (Spec.tag E key b0 a p).length = 4 := by
  simp [Spec.tag, cbcMac_length E hE]

end XknxVerif.DataSecure
