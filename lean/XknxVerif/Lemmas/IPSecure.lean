/-
Helper lemmas for the IP Secure wrapper model (`Model/IPSecure.lean`), all generic in the block function.
-/
import XknxVerif.Model.IPSecure

namespace XknxVerif.IPSecure
open XknxVerif.Crypto
open XknxVerif.Bytes (ofNatBE toNatBE ofNatBE_length toNatBE_ofNatBE)

/-- XOR with a fixed (long enough) pad is injective on strings of one length. -/
theorem xorBytes_inj {a b s : Bytes} (hab : a.length = b.length) (hs : a.length ≤ s.length)
    (h : xorBytes a s = xorBytes b s) : a = b := by
  have h1 := xorBytes_cancel a s hs
  have h2 := xorBytes_cancel b s (by omega)
  rw [← h1, h, h2]

theorem nblocks_add16 (m : Nat) : nblocks (16 + m) = nblocks m + 1 := by
  unfold nblocks; omega

/-- The two halves of the streaming CTR use: the 16-octet first part (the MAC) meets the key-stream block of
`Ctr_0`, the second part (the payload) the blocks from `Ctr_0 + 1` on — and does not depend on the first part. -/
theorem ctrXor2_parts (E : BlockFn) (hE : E.Len16) (key ctr first second : Bytes) (hf : first.length = 16) :
    (ctrXor2 E key ctr first second).2 = xorBytes first (E key ctr) ∧
    (ctrXor2 E key ctr first second).1 = xorBytes second (ctrStream E key (nblocks second.length) (inc128 ctr)) := by
  have hlen : (first ++ second).length = 16 + second.length := by simp [hf]
  have hx : ctrXor E key ctr (first ++ second) =
      xorBytes first (E key ctr) ++ xorBytes second (ctrStream E key (nblocks second.length) (inc128 ctr)) := by
    unfold ctrXor
    rw [hlen, nblocks_add16, ctrStream]
    exact xorBytes_append _ _ _ _ (by rw [hf, hE])
  have h16 : (xorBytes first (E key ctr)).length = 16 := by rw [xorBytes_length, hf, hE]; rfl
  unfold ctrXor2
  simp only [hx, hf]
  constructor
  · rw [List.take_append_of_le_length (by omega), List.take_of_length_le (by omega)]
  · rw [List.drop_append_of_le_length (by omega), List.drop_of_length_le (by omega), List.nil_append]

theorem ctrStream_long (E : BlockFn) (hE : E.Len16) (key ctr : Bytes) (m : Nat) :
    m ≤ (ctrStream E key (nblocks m) ctr).length := by
  rw [ctrStream_length E hE]; exact nblocks_ge m

/-- The CBC-MAC over a non-empty input is one block. -/
theorem macCbc_length (E : BlockFn) (hE : E.Len16) (key additional payload block0 : Bytes) :
    (macCbc E key additional payload block0).length = 16 := by
  unfold macCbc
  have h2 : 2 ≤ (block0 ++ ofNatBE 2 additional.length ++ additional ++ payload).length := by
    simp only [List.length_append, ofNatBE_length]; omega
  generalize block0 ++ ofNatBE 2 additional.length ++ additional ++ payload = d at h2 ⊢
  have hne : pad16 d ≠ [] := by
    obtain ⟨z, hz, -⟩ := pad16_prefix d
    intro h0
    rw [hz] at h0
    have hd0 := (List.append_eq_nil_iff.mp h0).1
    rw [hd0] at h2
    simp at h2
  rw [cbcLast_eq_cbcMac E hE key _ hne]
  have hb : blocks16 (pad16 d) ≠ [] := by
    have : 0 < (pad16 d).length := List.length_pos_iff.mpr hne
    simp [blocks16, nblocks]; omega
  cases hbl : blocks16 (pad16 d) with
  | nil => exact absurd hbl hb
  | cons b bs => exact cbcMac_length E hE key b bs

theorem macOf_length (E : BlockFn) (hE : E.Len16) (key : Bytes) (f : Fields) (p : Bytes) :
    (macOf E key f p).length = 16 := macCbc_length E hE key _ _ _

/-- the decrypted payload `decrypt_frame` works on -/
def decPayload (E : BlockFn) (key : Bytes) (f : Fields) (enc : Bytes) : Bytes :=
  xorBytes enc (ctrStream E key (nblocks enc.length) (inc128 (ctr0 f)))

/-- the MAC as transmitted: CBC-MAC of the authenticated fields and the plain payload, XOR `E(Ctr_0)` -/
def tagOf (E : BlockFn) (key : Bytes) (f : Fields) (p : Bytes) : Bytes :=
  xorBytes (macOf E key f p) (E key (ctr0 f))

theorem decPayload_length (E : BlockFn) (hE : E.Len16) (key : Bytes) (f : Fields) (enc : Bytes) :
    (decPayload E key f enc).length = enc.length := by
  unfold decPayload
  have := ctrStream_long E hE key (inc128 (ctr0 f)) enc.length
  rw [xorBytes_length]; omega

/-- Acceptance criterion of `decrypt_frame`, in closed form. -/
theorem decryptFrame_ok_iff (E : BlockFn) (hE : E.Len16) (key : Bytes) (sid : Nat) (f : Fields) (enc mac p : Bytes)
    (hm : mac.length = 16) :
    decryptFrame E key sid f enc mac = .ok p ↔
      toNatBE f.sid = sid ∧ p = decPayload E key f enc ∧ tagOf E key f p = mac := by
  obtain ⟨h2, h1⟩ := ctrXor2_parts E hE key (ctr0 f) mac enc hm
  unfold decryptFrame decryptCtr
  by_cases hs : toNatBE f.sid = sid
  · simp only [hs, ne_eq, not_true_eq_false, ↓reduceIte, true_and]
    rw [h1, h2]
    have hS : (E key (ctr0 f)).length = 16 := hE _ _
    constructor
    · intro h
      split at h
      · rename_i heq
        simp only [Except.ok.injEq] at h
        refine ⟨h.symm, ?_⟩
        unfold tagOf
        rw [← h]
        show xorBytes (macOf E key f (decPayload E key f enc)) (E key (ctr0 f)) = mac
        unfold decPayload
        rw [heq]
        exact xorBytes_cancel mac _ (by omega)
      · cases h
    · rintro ⟨hp, ht⟩
      subst hp
      unfold tagOf at ht
      have : macOf E key f (decPayload E key f enc) = xorBytes mac (E key (ctr0 f)) := by
        have hl := macOf_length E hE key f (decPayload E key f enc)
        rw [← ht]
        exact (xorBytes_cancel _ _ (by omega)).symm
      unfold decPayload at this ⊢
      simp [this]
  · simp only [ne_eq, hs, not_false_eq_true, ↓reduceIte, reduceCtorEq, false_and]

/-- what `encrypt_frame` produces, in closed form -/
theorem encryptFrame_parts (E : BlockFn) (hE : E.Len16) (key : Bytes) (sid : Nat) (seq serial tag payload : Bytes) :
    let w := encryptFrame E key sid seq serial tag payload
    w.2.2 = tagOf E key w.1 payload ∧
    w.2.1 = xorBytes payload (ctrStream E key (nblocks payload.length) (inc128 (ctr0 w.1))) := by
  simp only [encryptFrame, encryptDataCtr]
  exact ctrXor2_parts E hE key _ _ payload (macOf_length E hE key _ payload)

end XknxVerif.IPSecure
