/-
C10: round trip through the JSON form (dict for DPTComplex values, lower-case member name for DPTEnum).
-/
import XknxVerif.Lemmas.DPTDecode
import XknxVerif.Model.DPT.CoresJson

namespace XknxVerif.DPT
open XknxVerif.SF

/-- leaves of the JSON form are JSON-native by construction (`J` has no other constructors); the only thing the
standard encoder can still refuse is a non-finite float -/
def J.finite : J → Bool
  | .flt f => !(f.isNaN || f.isInf)
  | _ => true

def JForm.native : JForm → Bool
  | .name _ => true
  | .dict fs => fs.all fun (_, j) => j.finite

/-- C10 for one payload: if it decodes to `v`, the dict / name form exists, is JSON-native, is accepted by
`to_knx`, and the new payload decodes to `v` -/
def JRT (ctx : Ctx) (r : Row) (p : Payload) : Prop :=
  ∀ v, decode ctx r p = .ok v →
    ∃ f p', asForm r v = some f ∧ encodeJson ctx r f = .ok p' ∧ decode ctx r p' = .ok v

theorem jrtB_sound {ctx : Ctx} {r : Row} {p : Payload} (h : jrtB ctx r p = true) : JRT ctx r p := by
  intro v hv
  unfold jrtB at h
  rw [hv] at h
  simp only [] at h
  cases hf : asForm r v with
  | none => simp [hf] at h
  | some f =>
    simp only [hf] at h
    cases he : encodeJson ctx r f with
    | error e => simp [he] at h
    | ok p' =>
      simp only [he] at h
      exact ⟨f, p', rfl, he, by simpa using h⟩

theorem JRT_of_error {ctx : Ctx} {r : Row} {p : Payload} {e : Err} (h : decode ctx r p = .error e) : JRT ctx r p := by
  intro v hv; rw [h] at hv; cases hv

theorem jrt1_sound {ctx : Ctx} {r : Row} (hl : rawLen r = 1)
    (hA : ∀ k, k < 16 → jrt1ChunkA ctx r k = true) (hB : ∀ k, k < 4 → jrt1ChunkB ctx r k = true)
    (p : Payload) (hp : p.WF) : JRT ctx r p := by
  have ha : ∀ b, b < 256 → jrtB ctx r (.array [b]) = true := by
    intro b hb
    have := hA (b / 16) (by omega)
    unfold jrt1ChunkA at this
    rw [List.all_eq_true] at this
    have := this (b % 16) (List.mem_range.mpr (Nat.mod_lt _ (by decide)))
    rwa [Nat.div_add_mod b 16] at this
  have hb : ∀ v, v < 64 → jrtB ctx r (.binary v) = true := by
    intro v hv
    have := hB (v / 16) (by omega)
    unfold jrt1ChunkB at this
    rw [List.all_eq_true] at this
    have := this (v % 16) (List.mem_range.mpr (Nat.mod_lt _ (by decide)))
    rwa [Nat.div_add_mod v 16] at this
  cases p with
  | binary v => exact jrtB_sound (hb v hp)
  | array bs =>
    match bs, hp with
    | [b], hp => exact jrtB_sound (ha b (hp b (by simp)))
    | [], _ =>
      apply JRT_of_error (e := .parse)
      unfold decode validate
      unfold rawLen at hl
      cases hk : r.kind <;> simp [hk] at hl ⊢
      · simp [Except.bind]
      · rw [hl]; simp [Except.bind]
    | _ :: _ :: tl, _ =>
      apply JRT_of_error (e := .parse)
      unfold decode validate
      unfold rawLen at hl
      cases hk : r.kind <;> simp [hk] at hl ⊢
      · simp [Except.bind]
      · rw [hl]
        have : ¬ (1 = tl.length + 1 + 1) := by omega
        simp [this, Except.bind]

theorem jsonOneItem_rt (hA : ∀ k, k < 16 → jsonChunkA k = true) (hB : ∀ k, k < 4 → jsonChunkB k = true)
    (r : Row) (hr : r ∈ Generated.table) (hl : rawLen r = 1) (hj : isJsonFamily r.family = true)
    (p : Payload) (hp : p.WF) : JRT tableCtx r p := by
  have hmem : r ∈ jsonOneItemRows := by
    unfold jsonOneItemRows
    rw [List.mem_filter]
    exact ⟨hr, by simp [hl, hj]⟩
  apply jrt1_sound hl _ _ p hp
  · intro k hk
    have := hA k hk
    unfold jsonChunkA at this
    exact (List.all_eq_true.mp this) r hmem
  · intro k hk
    have := hB k hk
    unfold jsonChunkB at this
    exact (List.all_eq_true.mp this) r hmem

end XknxVerif.DPT
