/-
C10: round trip through the JSON form (dict for DPTComplex values, lower-case member name for DPTEnum).
-/
import XknxVerif.Lemmas.DPTDecode
import XknxVerif.Model.DPT.CoresJson

namespace XknxVerif.DPT
open XknxVerif.SF

/-- leaves of the JSON form are JSON-native by construction (`J` has no other constructors); the only thing the
standard encoder can still refuse is a non-finite float -/
def J.finite : J → Bool
  | .flt f => !(f.isNaN || f.isInf)
  | _ => true

def JForm.native : JForm → Bool
  | .name _ => true
  | .dict fs => fs.all fun (_, j) => j.finite

/-- C10 for one payload: if it decodes to `v`, the dict / name form exists, is JSON-native, is accepted by
`to_knx`, and the new payload decodes to `v` -/
def JRT (ctx : Ctx) (r : Row) (p : Payload) : Prop :=
  ∀ v, decode ctx r p = .ok v →
    ∃ f p', asForm r v = some f ∧ encodeJson ctx r f = .ok p' ∧ decode ctx r p' = .ok v

theorem jrtB_sound {ctx : Ctx} {r : Row} {p : Payload} (h : jrtB ctx r p = true) : JRT ctx r p := by
  intro v hv
  unfold jrtB at h
  rw [hv] at h
  simp only [] at h
  cases hf : asForm r v with
  | none => simp [hf] at h
  | some f =>
    simp only [hf] at h
    cases he : encodeJson ctx r f with
    | error e => simp [he] at h
    | ok p' =>
      simp only [he] at h
      exact ⟨f, p', rfl, he, by simpa using h⟩

theorem JRT_of_error {ctx : Ctx} {r : Row} {p : Payload} {e : Err} (h : decode ctx r p = .error e) : JRT ctx r p := by
  intro v hv; rw [h] at hv; cases hv

theorem jrt1_sound {ctx : Ctx} {r : Row} (hl : rawLen r = 1)
    (hA : ∀ k, k < 16 → jrt1ChunkA ctx r k = true) (hB : ∀ k, k < 4 → jrt1ChunkB ctx r k = true)
    (p : Payload) (hp : p.WF) : JRT ctx r p := by
  have ha : ∀ b, b < 256 → jrtB ctx r (.array [b]) = true := by
    intro b hb
    have := hA (b / 16) (by omega)
    unfold jrt1ChunkA at this
    rw [List.all_eq_true] at this
    have := this (b % 16) (List.mem_range.mpr (Nat.mod_lt _ (by decide)))
    rwa [Nat.div_add_mod b 16] at this
  have hb : ∀ v, v < 64 → jrtB ctx r (.binary v) = true := by
    intro v hv
    have := hB (v / 16) (by omega)
    unfold jrt1ChunkB at this
    rw [List.all_eq_true] at this
    have := this (v % 16) (List.mem_range.mpr (Nat.mod_lt _ (by decide)))
    rwa [Nat.div_add_mod v 16] at this
  cases p with
  | binary v => exact jrtB_sound (hb v hp)
  | array bs =>
    match bs, hp with
    | [b], hp => exact jrtB_sound (ha b (hp b (by simp)))
    | [], _ =>
      apply JRT_of_error (e := .parse)
      unfold decode validate
      unfold rawLen at hl
      cases hk : r.kind <;> simp [hk] at hl ⊢
      · simp [Except.bind]
      · rw [hl]; simp [Except.bind]
    | _ :: _ :: tl, _ =>
      apply JRT_of_error (e := .parse)
      unfold decode validate
      unfold rawLen at hl
      cases hk : r.kind <;> simp [hk] at hl ⊢
      · simp [Except.bind]
      · rw [hl]
        have : ¬ (1 = tl.length + 1 + 1) := by omega
        simp [this, Except.bind]

theorem jsonOneItem_rt (hA : ∀ k, k < 16 → jsonChunkA k = true) (hB : ∀ k, k < 4 → jsonChunkB k = true)
    (r : Row) (hr : r ∈ Generated.table) (hl : rawLen r = 1) (hj : isJsonFamily r.family = true)
    (p : Payload) (hp : p.WF) : JRT tableCtx r p := by
  have hmem : r ∈ jsonOneItemRows := by
    unfold jsonOneItemRows
    rw [List.mem_filter]
    exact ⟨hr, by simp [hl, hj]⟩
  apply jrt1_sound hl _ _ p hp
  · intro k hk
    have := hA k hk
    unfold jsonChunkA at this
    exact (List.all_eq_true.mp this) r hmem
  · intro k hk
    have := hB k hk
    unfold jsonChunkB at this
    exact (List.all_eq_true.mp this) r hmem

/-! ### DPT 19: `from_dict(as_dict(v)) = v` for every decoded value -/

/-- every member name parses back from its lower-case form to the same member -/
def enumNamesOK (t : EnumTable) : Bool :=
  t.all fun (n, v) => enumParseName t (lowerName n) == some (n, v)

theorem byValue_mem {t : EnumTable} {v : Nat} {s : String} (h : t.byValue v = some s) : (s, v) ∈ t := by
  unfold EnumTable.byValue at h
  cases hf : t.find? (fun x => x.2 == v) with
  | none => simp [hf] at h
  | some pr =>
    obtain ⟨n, x⟩ := pr
    have hm := List.mem_of_find?_eq_some hf
    have hp := List.find?_some hf
    simp only [hf, Option.map_some] at h
    simp only [beq_iff_eq] at hp
    injection h with h
    subst h; subst hp
    exact hm

theorem jEnum_lower {t : EnumTable} (hok : enumNamesOK t = true) {v : Nat} {s : String} (h : t.byValue v = some s) :
    jEnum t (.str (lowerName s)) = .ok (.enum s) := by
  have hm := byValue_mem h
  unfold enumNamesOK at hok
  rw [List.all_eq_true] at hok
  have := hok (s, v) hm
  simp only [beq_iff_eq] at this
  simp [jEnum, enumParseJ, this]


theorem datetime_json_id (r : Row) (hf : r.family = .datetime)
    (hok : enumNamesOK (r.enumTable "day_of_week") = true) (raw : List Nat) (fs : List (String × Atom))
    (h : decDateTime r raw = .ok (.obj fs)) :
    ∃ d, asForm r (.obj fs) = some (.dict d) ∧ fromDict r d = .ok fs := by
  unfold decDateTime at h
  match raw, h with
  | [r0, r1, r2, r3, r4, r5, r6, r7], h =>
    simp only [enumOfValue] at h
    cases hdw : (r.enumTable "day_of_week").byValue (r3 / 32) with
    | none =>
      rw [hdw] at h
      by_cases hw : bit r6 2
      · by_cases h4 : bit r6 4 <;> by_cases h3 : bit r6 3 <;> by_cases h1 : bit r6 1 <;> by_cases h5 : bit r6 5 <;>
          simp only [h4, h3, hw, h1, h5, if_true, if_false, Bool.false_eq_true] at h <;>
          split at h <;> (try (cases h; done)) <;>
          (injection h with h; injection h with h; subst h
           simp only [optInt]
           cases ha : asForm r (.obj _) with
           | none => simp [asForm, hf, atomToJ] at ha
           | some f =>
             simp [asForm, hf, atomToJ] at ha
             subst ha
             refine ⟨_, rfl, ?_⟩
             simp [fromDict, hf, jget, bind, Except.bind, pure, Except.pure])
      · simp [hw] at h
    | some s =>
      rw [hdw] at h
      have hje := jEnum_lower hok hdw
      by_cases h4 : bit r6 4 <;> by_cases h3 : bit r6 3 <;> by_cases h2 : bit r6 2 <;> by_cases h1 : bit r6 1 <;>
        by_cases h5 : bit r6 5 <;>
        simp only [h4, h3, h2, h1, h5, if_true, if_false, Option.map_some, Bool.false_eq_true] at h <;>
        split at h <;> (try (cases h; done)) <;>
        (injection h with h; injection h with h; subst h
         simp only [optInt]
         cases ha : asForm r (.obj _) with
         | none => simp [asForm, hf, atomToJ] at ha
         | some f =>
           simp [asForm, hf, atomToJ] at ha
           subst ha
           refine ⟨_, rfl, ?_⟩
           simp [fromDict, hf, jget, hje, bind, Except.bind, pure, Except.pure])

/-- for a value `from_knx` returned, `to_knx(as_dict(v))` is `to_knx(v)` (up to the error wrapping of DPTComplex) -/
theorem datetime_encodeJson (ctx : Ctx) (r : Row) (hf : r.family = .datetime)
    (hok : enumNamesOK (r.enumTable "day_of_week") = true) (raw : List Nat) (fs : List (String × Atom))
    (h : decDateTime r raw = .ok (.obj fs)) :
    ∃ d, asForm r (.obj fs) = some (.dict d) ∧ encodeJson ctx r (.dict d) = complexErr (encodeObj ctx r fs) := by
  obtain ⟨d, h1, h2⟩ := datetime_json_id r hf hok raw fs h
  refine ⟨d, h1, ?_⟩
  simp [encodeJson, hf, h2, Except.bind]

end XknxVerif.DPT
