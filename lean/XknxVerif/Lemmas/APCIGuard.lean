/-
The closing guard of `encodeAPDU` ("the emitted APCI dispatches back to this
row") exists in the Python code only for `ADCResponse` (collision check added
by a `fix:` commit).  Here: for every other row the guard can never fail, so
the model has no behaviour the code lacks.
-/
import XknxVerif.Lemmas.APCITableWF

namespace XknxVerif.APCI

theorem Bits.toNat_append (a b : Bits) : Bits.toNat (a ++ b) = Bits.toNat a * 2 ^ b.length + Bits.toNat b := by
  induction b using Bits.rev_ind with
  | h0 => simp [Bits.toNat]
  | h1 xs x ih =>
    rw [← List.append_assoc, Bits.toNat_append_single, Bits.toNat_append_single, ih,
      List.length_append, List.length_singleton, Nat.pow_succ]
    rw [Nat.mul_add, Nat.add_assoc, ← Nat.mul_assoc, Nat.mul_comm 2 (Bits.toNat a), Nat.mul_assoc,
      Nat.mul_comm 2 (2 ^ xs.length)]

theorem toNat_replicate_false (n : Nat) : Bits.toNat (List.replicate n false) = 0 := by
  induction n with
  | zero => rfl
  | succ k ih =>
    rw [List.replicate_succ', Bits.toNat_append_single, ih]; rfl

/-- Shape of an encoded frame: six zero bits, the APCI constant, the body. -/
theorem encodeFields_full {row : Row} {v : Variant} {vals : List Val} {bits : Bits}
    (h : encodeFields (fullFields row v) vals = some bits) :
    ∃ bb, encodeFields v.body vals = some bb ∧
      bits = List.replicate 6 false ++
        (Bits.ofNat (if row.short then 4 else 10) (if row.short then row.code >>> 6 else row.code) ++ bb) := by
  unfold fullFields at h
  simp only [encodeFields, encode1] at h
  split at h
  · rename_i bs hbs
    injection h with h
    cases hs : row.short
    · simp only [hs, Bool.false_eq_true, if_false] at hbs ⊢
      split at hbs
      · rename_i bb hbb
        injection hbs with hbs
        exact ⟨bb, hbb, by rw [← h, ← hbs]⟩
      · cases hbs
    · simp only [hs, if_true] at hbs ⊢
      split at hbs
      · rename_i bb hbb
        injection hbs with hbs
        exact ⟨bb, hbb, by rw [← h, ← hbs]⟩
      · cases hbs
  · cases h

theorem codeOfBits_frame (x : Bits) : codeOfBits (List.replicate 6 false ++ x) = Bits.toNat (x.take 10) := by
  unfold codeOfBits
  rw [List.drop_left' (by simp)]

/-- Per-row table fact, checked by kernel evaluation. -/
def guardRowOk (r : Row) (i : Nat) : Bool :=
  decide (r.code < 1024) &&
  (if !r.short then findRow r.code == some i
   else (r.code >>> 6) * 64 == r.code && decide (r.code >>> 6 < 16) && r.variants.all fun v =>
     match v.body with
     | .reserved 6 :: _ => findRow r.code == some i
     | .uint 6 0 63 :: _ =>
       r.name == "ADCResponse" || (List.range 64).all fun x => findRow (r.code + x) == some i
     | _ => false)

theorem guard_table : ∀ i : Fin table.length, guardRowOk table[i] i.val = true := by
  decide +kernel

/-- **The dispatch guard is dead code except for `ADCResponse`.** -/
theorem guard_vacuous (i : Nat) (row : Row) (v : Variant) (vals : List Val) (bits : Bits)
    (hrow : table[i]? = some row) (hv : v ∈ row.variants) (hn : (row.name == "ADCResponse") = false)
    (he : encodeFields (fullFields row v) vals = some bits) : findRow (codeOfBits bits) = some i := by
  obtain ⟨hi, hget⟩ := List.getElem?_eq_some_iff.mp hrow
  have hg := guard_table ⟨i, hi⟩
  simp only [Fin.getElem_fin] at hg
  rw [hget] at hg
  obtain ⟨bb, hbb, rfl⟩ := encodeFields_full he
  rw [codeOfBits_frame]
  simp only [guardRowOk, Bool.and_eq_true, decide_eq_true_eq] at hg
  obtain ⟨hc, hg⟩ := hg
  cases hs : row.short
  · simp only [hs, Bool.not_false, if_true, beq_iff_eq] at hg
    simp only [Bool.false_eq_true, if_false]
    rw [List.take_left' (Bits.ofNat_length 10 row.code), Bits.toNat_ofNat 10 _ hc]
    exact hg
  · simp only [hs, Bool.not_true, Bool.false_eq_true, if_false, Bool.and_eq_true, beq_iff_eq,
      decide_eq_true_eq, List.all_eq_true] at hg
    obtain ⟨⟨hcode, hc4⟩, hall⟩ := hg
    have hvb := hall v hv
    simp only [if_true]
    rw [List.take_append, Bits.ofNat_length, List.take_of_length_le (by simp),
      Bits.toNat_append, Bits.toNat_ofNat 4 _ hc4]
    simp only [Nat.reduceSub]
    split at hvb
    · -- reserved 6: the low six bits are zero
      rename_i rest hbody
      rw [hbody] at hbb
      simp only [encodeFields, encode1] at hbb
      split at hbb
      · rename_i bs _
        injection hbb with hbb
        subst hbb
        rw [List.take_left' (by simp), toNat_replicate_false]
        simp only [List.length_replicate, Nat.add_zero]
        rw [show (2:Nat) ^ 6 = 64 from rfl, hcode]
        simpa using hvb
      · cases hbb
    · -- 6 bit value
      rename_i rest hbody
      rw [hbody] at hbb
      simp only [hn, Bool.false_or, List.all_eq_true, List.mem_range, beq_iff_eq] at hvb
      match vals, hbb with
      | .int k :: vs, hbb =>
        simp only [encodeFields] at hbb
        cases he1 : encode1 (Field.uint 6 0 63) (Val.int k :: vs) with
        | none => rw [he1] at hbb; cases hbb
        | some p =>
          obtain ⟨b, vs'⟩ := p
          rw [he1] at hbb
          simp only at hbb
          cases hbs : encodeFields rest vs' with
          | none => rw [hbs] at hbb; cases hbb
          | some bs =>
            rw [hbs] at hbb
            injection hbb with hbb
            subst hbb
            simp only [encode1] at he1
            split at he1
            · rename_i hr
              simp only [Option.some.injEq, Prod.mk.injEq] at he1
              obtain ⟨rfl, rfl⟩ := he1
              rw [List.take_left' (Bits.ofNat_length 6 _), Bits.ofNat_length,
                Bits.toNat_ofNat 6 _ (by omega), show (2:Nat) ^ 6 = 64 from rfl, hcode]
              exact hvb k.toNat (by omega)
            · cases he1
    · cases hvb

end XknxVerif.APCI
