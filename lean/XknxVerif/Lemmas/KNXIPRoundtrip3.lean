/-
Round trip of the body classes (C21), part 1: bodies built from HPAI / CRI / CRD / DIB / SRP.
-/
import XknxVerif.Lemmas.KNXIPRoundtrip2

namespace XknxVerif.KNXIP
open XknxVerif.Generated.KNXIP

/-- what the body round trip says -/
def BodyRT (b : Body) : Prop :=
  ∃ bs, b.serialize = .ok bs ∧ bs.length = b.calcLength ∧ parseBody b.serviceType bs = .ok b

/-- reduce the service-type dispatch of `parseBody` for a concrete body class -/
macro "dispatch" : tactic => `(tactic| simp [BodyRT, parseBody, Body.serviceType, ServiceType.search_request, ServiceType.search_response, ServiceType.description_request, ServiceType.description_response, ServiceType.connect_request, ServiceType.connect_response, ServiceType.connectionstate_request, ServiceType.connectionstate_response, ServiceType.disconnect_request, ServiceType.disconnect_response, ServiceType.search_request_extended, ServiceType.search_response_extended, ServiceType.device_configuration_request, ServiceType.device_configuration_ack, ServiceType.tunnelling_request, ServiceType.tunnelling_ack, ServiceType.tunnelling_feature_get, ServiceType.tunnelling_feature_response, ServiceType.tunnelling_feature_set, ServiceType.tunnelling_feature_info, ServiceType.routing_indication, ServiceType.routing_lost_message, ServiceType.routing_busy, ServiceType.secure_wrapper, ServiceType.session_request, ServiceType.session_response, ServiceType.session_authenticate, ServiceType.session_status, ServiceType.timer_notify])

@[simp] theorem exceptParse_ok {α} (a : α) (h : PyM α) : exceptParse (.ok a) h = .ok a := rfl

theorem rt_searchRequest (ep : HPAI) (hw : ep.wf = true) : BodyRT (.searchRequest ep) := by
  obtain ⟨bs, hs, hl, hp⟩ := HPAI.roundtrip ep hw
  refine ⟨bs, hs, hl, ?_⟩
  show parseSearchRequest bs = _
  unfold parseSearchRequest
  have := hp []
  rw [List.append_nil] at this
  rw [this]; rfl

theorem rt_descriptionRequest (ep : HPAI) (hw : ep.wf = true) : BodyRT (.descriptionRequest ep) := by
  obtain ⟨bs, hs, hl, hp⟩ := HPAI.roundtrip ep hw
  refine ⟨bs, hs, hl, ?_⟩
  show parseDescriptionRequest bs = _
  unfold parseDescriptionRequest
  have := hp []
  rw [List.append_nil] at this
  rw [this]; rfl

theorem rt_searchRequestExtended (ep : HPAI) (srps : List SRP) (hw : ep.wf = true) (hs : ∀ s ∈ srps, s.wf = true) :
    BodyRT (.searchRequestExtended ep srps) := by
  obtain ⟨e, he, hl, hp⟩ := HPAI.roundtrip ep hw
  obtain ⟨bss, hser, hlen, hparse⟩ := srps_roundtrip srps hs
  refine ⟨e ++ bss.flatten, ?_, ?_, ?_⟩
  · simp only [Body.serialize]; rw [he, ok_bind, hser]; rfl
  · simp [Body.calcLength, hl, hlen]
  · show parseSearchRequestExtended _ = _
    unfold parseSearchRequestExtended
    rw [hp, ok_bind, drop_of_len hl, hparse]; rfl

theorem rt_searchResponse (x : Bool) (ep : HPAI) (dibs : List DIB) (hw : ep.wf = true)
    (hd : ∀ d ∈ dibs, d.wf = true) : BodyRT (.searchResponse x ep dibs) := by
  obtain ⟨e, he, hl, hp⟩ := HPAI.roundtrip ep hw
  obtain ⟨bss, hser, hlen, hparse⟩ := dibs_roundtrip dibs hd
  refine ⟨e ++ bss.flatten, ?_, ?_, ?_⟩
  · simp only [Body.serialize]; rw [he, ok_bind, hser]; rfl
  · simp [Body.calcLength, hl, hlen]
  · have : parseSearchResponse x (e ++ bss.flatten) = .ok (.searchResponse x ep dibs) := by
      unfold parseSearchResponse
      rw [hp, ok_bind, drop_of_len hl, hparse]; rfl
    cases x <;> exact this

theorem rt_descriptionResponse (dibs : List DIB) (hd : ∀ d ∈ dibs, d.wf = true) :
    BodyRT (.descriptionResponse dibs) := by
  obtain ⟨bss, hser, hlen, hparse⟩ := dibs_roundtrip dibs hd
  refine ⟨bss.flatten, ?_, ?_, ?_⟩
  · simp only [Body.serialize]; rw [hser]; rfl
  · simp [Body.calcLength, hlen]
  · show parseDescriptionResponse _ = _
    unfold parseDescriptionResponse
    rw [hparse]; rfl

theorem rt_connectRequest (c d : HPAI) (cri : CRI) (hc : c.wf = true) (hd : d.wf = true) (hr : cri.wf = true) :
    BodyRT (.connectRequest c d cri) := by
  obtain ⟨cb, hcs, hcl, hcp⟩ := HPAI.roundtrip c hc
  obtain ⟨db, hds, hdl, hdp⟩ := HPAI.roundtrip d hd
  obtain ⟨rb, hrs, hrl, hrp⟩ := CRI.roundtrip cri hr
  refine ⟨cb ++ db ++ rb, ?_, ?_, ?_⟩
  · simp only [Body.serialize]; rw [hcs, ok_bind, hds, ok_bind, hrs]; rfl
  · simp [Body.calcLength, hcl, hdl, hrl, Nat.add_assoc]
  · show parseConnectRequest _ = _
    unfold parseConnectRequest
    rw [List.append_assoc, hcp, ok_bind, drop_of_len hcl, hdp, ok_bind]
    have : (cb ++ (db ++ rb)).drop (Const.hpaiLength + Const.hpaiLength) = rb := by
      rw [← List.append_assoc]; exact drop_of_len (by simp [hcl, hdl])
    simp only
    rw [this]
    have := hrp []
    rw [List.append_nil] at this
    rw [this]; rfl

theorem rt_connectResponse (ch st : Nat) (ep : HPAI) (crd : CRD) (hch : ch < 256) (hst : st ∈ ErrorCode.codes)
    (he : ep.wf = true) (hc : crd.wf = true) : BodyRT (.connectResponse ch st ep crd) := by
  obtain ⟨eb, hes, hel, hep⟩ := HPAI.roundtrip ep he
  obtain ⟨cb, hcs, hcl, hcp⟩ := CRD.roundtrip crd hc
  have hst256 := errorCode_lt st hst
  refine ⟨[ch, st] ++ eb ++ cb, ?_, ?_, ?_⟩
  · simp only [Body.serialize]
    rw [bytesOf_ok (by intro x hx; simp at hx; rcases hx with rfl | rfl <;> omega), ok_bind, hes, ok_bind, hcs]; rfl
  · simp [Body.calcLength, hel, hcl]; omega
  · have hd : parseBody (Body.connectResponse ch st ep crd).serviceType ([ch, st] ++ eb ++ cb) =
        parseConnectResponse ([ch, st] ++ eb ++ cb) := by dispatch
    rw [hd]
    unfold parseConnectResponse
    have hcp' := hcp []
    rw [List.append_nil] at hcp'
    have hdrop : List.drop (2 + Const.hpaiLength) (ch :: st :: (eb ++ cb)) = cb := by
      rw [show 2 + Const.hpaiLength = Const.hpaiLength + 1 + 1 by omega]
      simp only [List.drop_succ_cons]
      exact drop_of_len hel
    simp only [List.cons_append, List.nil_append, List.append_assoc, List.length_cons, List.length_append,
      idx_cons_zero, idx_cons_succ, ok_bind, enumOf_ok hst, exceptValue_ok, List.drop_succ_cons, List.drop_zero,
      hep, hdrop, hcp', exceptParse_ok]
    rw [if_neg (by omega)]
    split <;> rfl

theorem rt_connRequest (k : ConnKind) (ch : Nat) (ep : HPAI) (hch : ch < 256) (he : ep.wf = true) :
    BodyRT (.connRequest k ch ep) := by
  obtain ⟨eb, hes, hel, hep⟩ := HPAI.roundtrip ep he
  refine ⟨[ch, 0] ++ eb, ?_, ?_, ?_⟩
  · simp only [Body.serialize]
    rw [bytesOf_ok (by intro x hx; simp at hx; rcases hx with rfl | rfl <;> omega), ok_bind, hes]; rfl
  · simp [Body.calcLength, hel]; omega
  · have : parseConnRequest k ([ch, 0] ++ eb) = .ok (.connRequest k ch ep) := by
      unfold parseConnRequest
      have hep' := hep []
      rw [List.append_nil] at hep'
      simp only [List.cons_append, List.nil_append, List.length_cons, idx_cons_zero, ok_bind,
        List.drop_succ_cons, List.drop_zero, hep']
      rw [if_neg (by omega)]
    cases k
    · have hd : parseBody (Body.connRequest .connectionState ch ep).serviceType ([ch, 0] ++ eb) =
          parseConnRequest .connectionState ([ch, 0] ++ eb) := by dispatch
      rw [hd]; exact this
    · have hd : parseBody (Body.connRequest .disconnect ch ep).serviceType ([ch, 0] ++ eb) =
          parseConnRequest .disconnect ([ch, 0] ++ eb) := by dispatch
      rw [hd]; exact this

end XknxVerif.KNXIP
