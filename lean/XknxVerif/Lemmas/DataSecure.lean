/-
Helper lemmas about the Data Secure model (used by Props/C15 … C19).
Core Lean only.
-/
import XknxVerif.Model.DataSecure

namespace XknxVerif.DataSecure
open XknxVerif.Crypto
open XknxVerif.Generated.DataSecure (algAuth algEnc svcData apciSecHigh apciSecLow sequenceNumberMax)

theorem algAuth_ne_algEnc : algAuth ≠ algEnc := by decide

/-! ### two-part CTR streaming -/

theorem ctrXor2_fst (E : BlockFn) (key ctr f s : Bytes) :
    (ctrXor2 E key ctr f s).1 =
      xorBytes s ((ctrStream E key (nblocks (f.length + s.length)) ctr).drop f.length) := by
  simp [ctrXor2, ctrXor, xorBytes_drop]

theorem ctrXor2_snd (E : BlockFn) (key ctr f s : Bytes) :
    (ctrXor2 E key ctr f s).2 =
      xorBytes f ((ctrStream E key (nblocks (f.length + s.length)) ctr).take f.length) := by
  simp [ctrXor2, ctrXor, xorBytes_take]

/-- The payload part depends on the first part only through its length. -/
theorem ctrXor2_fst_congr (E : BlockFn) (key ctr f f' s : Bytes) (h : f.length = f'.length) :
    (ctrXor2 E key ctr f s).1 = (ctrXor2 E key ctr f' s).1 := by
  rw [ctrXor2_fst, ctrXor2_fst, h]

/-- The MAC part is injective in the MAC (same length). -/
theorem ctrXor2_snd_inj (E : BlockFn) (hE : E.Len16) (key ctr f f' s : Bytes)
    (h : f.length = f'.length) (heq : (ctrXor2 E key ctr f s).2 = (ctrXor2 E key ctr f' s).2) :
    f = f' := by
  rw [ctrXor2_snd, ctrXor2_snd, ← h] at heq
  have hlen : f.length ≤ ((ctrStream E key (nblocks (f.length + s.length)) ctr).take f.length).length := by
    have := nblocks_ge (f.length + s.length)
    simp [ctrStream_length E hE]; omega
  generalize (ctrStream E key (nblocks (f.length + s.length)) ctr).take f.length = ks at heq hlen
  have h1 := xorBytes_cancel f ks hlen
  have h2 := xorBytes_cancel f' ks (by omega)
  rw [← h1, heq, h2]

/-! ### C15 core: what `init_from_plain_apdu` builds, `get_plain_apdu` opens -/

theorem plainAuth_secureAuth (E : BlockFn) (key : Bytes) (scf : Scf) (sb : Bytes)
    (c : Ctx) (apdu : Bytes) (d : SecureData)
    (h : secureAuth E key scf sb c apdu = .ok d) : plainAuth E key scf c d = .ok apdu := by
  unfold secureAuth at h
  unfold plainAuth
  cases hb : block0 sb c 0 with
  | error e => simp [hb] at h
  | ok b0 =>
    simp only [hb] at h
    cases hm : macCbc E key (scf.toKnx :: apdu) [] b0 with
    | error e => simp [hm] at h
    | ok m =>
      simp only [hm, Except.ok.injEq] at h
      subst h
      simp [hb, hm]

theorem plainEnc_secureEnc (E : BlockFn) (hE : E.Len16) (key : Bytes) (scf : Scf) (sb : Bytes)
    (c : Ctx) (apdu : Bytes) (d : SecureData)
    (h : secureEnc E key scf sb c apdu = .ok d) : plainEnc E key scf c d = .ok apdu := by
  unfold secureEnc at h
  unfold plainEnc
  cases hb : block0 sb c apdu.length with
  | error e => simp [hb] at h
  | ok b0 =>
    simp only [hb] at h
    cases hm : macCbc E key [scf.toKnx] apdu b0 with
    | error e => simp [hm] at h
    | ok m =>
      simp only [hm, Except.ok.injEq] at h
      subst h
      have hr := ctrXor2_roundtrip E hE key (counter0 sb c.addr) (m.take 4) apdu
      simp only at hr
      simp [hr, hb, hm]

/-- `get_plain_apdu ∘ init_from_plain_apdu = id`, for **every** block function with
16-octet outputs, every key, SCF, sequence-number octets, context and APDU. -/
theorem getPlain_secureWith (E : BlockFn) (hE : E.Len16) (key : Bytes) (scf : Scf) (sb : Bytes)
    (c : Ctx) (apdu : Bytes) (d : SecureData)
    (h : secureWith E key scf sb c apdu = .ok d) : getPlain E key scf c d = .ok apdu := by
  unfold secureWith at h
  unfold getPlain
  by_cases ha : scf.algorithm = algAuth
  · have hne : scf.algorithm ≠ algEnc := fun h' => algAuth_ne_algEnc (ha ▸ h')
    rw [if_pos ha] at h
    rw [if_neg hne, if_pos ha]
    exact plainAuth_secureAuth E key scf sb c apdu d h
  · rw [if_neg ha] at h
    by_cases he : scf.algorithm = algEnc
    · rw [if_pos he] at h
      rw [if_pos he]
      exact plainEnc_secureEnc E hE key scf sb c apdu d h
    · rw [if_neg he] at h
      simp at h

theorem secureAuth_of_plainAuth (E : BlockFn) (key : Bytes) (scf : Scf) (c : Ctx)
    (d : SecureData) (p : Bytes) (h : plainAuth E key scf c d = .ok p) :
    secureAuth E key scf d.seq c p = .ok d := by
  unfold plainAuth at h
  unfold secureAuth
  cases hb : block0 d.seq c 0 with
  | error e => simp [hb] at h
  | ok b0 =>
    simp only [hb] at h
    cases hm : macCbc E key (scf.toKnx :: d.sapdu) [] b0 with
    | error e => simp [hm] at h
    | ok m =>
      simp only [hm] at h
      by_cases hmac : m.take 4 = d.mac
      · simp only [hmac, ne_eq, not_true_eq_false, ↓reduceIte, Except.ok.injEq] at h
        subst h
        simp [hm, hmac]
      · simp [hmac] at h

theorem secureEnc_of_plainEnc (E : BlockFn) (hE : E.Len16) (key : Bytes) (scf : Scf) (c : Ctx)
    (d : SecureData) (p : Bytes) (h : plainEnc E key scf c d = .ok p) :
    secureEnc E key scf d.seq c p = .ok d := by
  unfold plainEnc at h
  unfold secureEnc
  simp only at h
  generalize hr : ctrXor2 E key (counter0 d.seq c.addr) d.mac d.sapdu = r at h
  cases hb : block0 d.seq c r.1.length with
  | error e => simp [hb] at h
  | ok b0 =>
    simp only [hb] at h
    cases hm : macCbc E key [scf.toKnx] r.1 b0 with
    | error e => simp [hm] at h
    | ok m =>
      simp only [hm] at h
      by_cases hmac : m.take 4 = r.2
      · simp only [hmac, ne_eq, not_true_eq_false, ↓reduceIte, Except.ok.injEq] at h
        subst h
        have hrt := ctrXor2_roundtrip E hE key (counter0 d.seq c.addr) d.mac d.sapdu
        simp only [hr] at hrt
        simp [hb, hm, hmac, hrt]
      · simp [hmac] at h

/-- **Acceptance characterisation**: a received ASDU is accepted with plaintext `p`
exactly when it is, octet for octet, what the sending algorithm produces for `p`. -/
theorem getPlain_ok_iff (E : BlockFn) (hE : E.Len16) (key : Bytes) (scf : Scf) (c : Ctx)
    (d : SecureData) (p : Bytes) :
    getPlain E key scf c d = .ok p ↔ secureWith E key scf d.seq c p = .ok d := by
  constructor
  · intro h
    unfold getPlain at h
    unfold secureWith
    by_cases he : scf.algorithm = algEnc
    · have hna : scf.algorithm ≠ algAuth := fun h' => algAuth_ne_algEnc (h' ▸ he)
      rw [if_pos he] at h
      rw [if_neg hna, if_pos he]
      exact secureEnc_of_plainEnc E hE key scf c d p h
    · rw [if_neg he] at h
      by_cases ha : scf.algorithm = algAuth
      · rw [if_pos ha] at h
        rw [if_pos ha]
        exact secureAuth_of_plainAuth E key scf c d p h
      · rw [if_neg ha] at h
        simp at h
  · exact getPlain_secureWith E hE key scf d.seq c p d

/-! ### success conditions and shape of the output -/

theorem block0_ok (sb : Bytes) (c : Ctx) (q : Nat) (h1 : (c.atype ||| c.eff) < 256)
    (h2 : (c.tpci ||| apciSecHigh) < 256) (hq : q < 256) :
    block0 sb c q = .ok (sb ++ c.addr ++ [0, c.atype ||| c.eff, c.tpci ||| apciSecHigh, apciSecLow, 0, q]) := by
  unfold block0 bytesOf
  have h3 : apciSecLow < 256 := by decide
  have : ([0, c.atype ||| c.eff, c.tpci ||| apciSecHigh, apciSecLow, 0, q].all (· < 256)) = true := by
    simp only [List.all_cons, List.all_nil, Bool.and_true, Bool.and_eq_true, decide_eq_true_eq]
    omega
  rw [if_pos this]

/-- Guards under which `init_from_plain_apdu` returns (no `ValueError`/`OverflowError`). -/
structure SecureGuards (scf : Scf) (c : Ctx) (apdu : Bytes) : Prop where
  hAlg : scf.algorithm = algAuth ∨ scf.algorithm = algEnc
  hCtl : (c.atype ||| c.eff) < 256
  hTpci : (c.tpci ||| apciSecHigh) < 256
  hLen : apdu.length ≤ 255

theorem secureWith_ok (E : BlockFn) (key : Bytes) (scf : Scf) (sb : Bytes) (c : Ctx) (apdu : Bytes)
    (g : SecureGuards scf c apdu) : ∃ d, secureWith E key scf sb c apdu = .ok d := by
  unfold secureWith
  rcases g.hAlg with ha | ha
  · rw [if_pos ha]
    unfold secureAuth
    rw [block0_ok sb c 0 g.hCtl g.hTpci (by omega)]
    have : (scf.toKnx :: apdu).length < 65536 := by have := g.hLen; simp; omega
    simp only [macCbc]
    rw [if_pos this]
    exact ⟨_, rfl⟩
  · have hne : scf.algorithm ≠ algAuth := fun h' => algAuth_ne_algEnc (h' ▸ ha)
    rw [if_neg hne, if_pos ha]
    unfold secureEnc
    rw [block0_ok sb c apdu.length g.hCtl g.hTpci (by have := g.hLen; omega)]
    simp [macCbc]

theorem macInput_ne_nil (b0 ad p : Bytes) : pad16 (macInput b0 ad p) ≠ [] := by
  intro h0
  obtain ⟨z, hz, _⟩ := pad16_prefix (macInput b0 ad p)
  rw [h0] at hz
  have := congrArg List.length hz
  simp [macInput, Bytes.ofNatBE_length] at this
  omega

theorem macCbc_length (E : BlockFn) (hE : E.Len16) (key ad p b0 m : Bytes)
    (h : macCbc E key ad p b0 = .ok m) : m.length = 16 := by
  unfold macCbc at h
  split at h
  · simp only [Except.ok.injEq] at h
    subst h
    have hne := macInput_ne_nil b0 ad p
    rw [cbcLast_eq_cbcMac E hE key _ hne]
    have hb16 : blocks16 (pad16 (macInput b0 ad p)) ≠ [] := by
      have : 0 < (pad16 (macInput b0 ad p)).length := List.length_pos_iff.mpr hne
      simp [blocks16, nblocks]; omega
    obtain ⟨x, xs, hx⟩ := List.exists_cons_of_ne_nil hb16
    rw [hx]
    exact cbcMac_length E hE key x xs
  · simp at h

theorem secureAuth_shape (E : BlockFn) (hE : E.Len16) (key : Bytes) (scf : Scf) (sb : Bytes) (c : Ctx)
    (apdu : Bytes) (d : SecureData) (h : secureAuth E key scf sb c apdu = .ok d) :
    d.seq = sb ∧ d.sapdu.length = apdu.length ∧ d.mac.length = 4 := by
  unfold secureAuth at h
  cases hb : block0 sb c 0 with
  | error e => simp [hb] at h
  | ok b0 =>
    simp only [hb] at h
    cases hm : macCbc E key (scf.toKnx :: apdu) [] b0 with
    | error e => simp [hm] at h
    | ok m =>
      simp only [hm, Except.ok.injEq] at h
      subst h
      have := macCbc_length E hE key _ _ _ m hm
      simp [this]

theorem secureEnc_shape (E : BlockFn) (hE : E.Len16) (key : Bytes) (scf : Scf) (sb : Bytes) (c : Ctx)
    (apdu : Bytes) (d : SecureData) (h : secureEnc E key scf sb c apdu = .ok d) :
    d.seq = sb ∧ d.sapdu.length = apdu.length ∧ d.mac.length = 4 := by
  unfold secureEnc at h
  cases hb : block0 sb c apdu.length with
  | error e => simp [hb] at h
  | ok b0 =>
    simp only [hb] at h
    cases hm : macCbc E key [scf.toKnx] apdu b0 with
    | error e => simp [hm] at h
    | ok m =>
      simp only [hm, Except.ok.injEq] at h
      subst h
      have hl := macCbc_length E hE key _ _ _ m hm
      have ho := ctrXor_length E hE key (counter0 sb c.addr) (m.take 4 ++ apdu)
      simp only [ctrXor2, List.length_drop, List.length_take, ho, List.length_append, hl]
      refine ⟨trivial, ?_, ?_⟩ <;> omega

/-- Shape of what `init_from_plain_apdu` returns: the given sequence-number octets,
a secured APDU as long as the plain one, a four-octet MAC. -/
theorem secureWith_shape (E : BlockFn) (hE : E.Len16) (key : Bytes) (scf : Scf) (sb : Bytes) (c : Ctx)
    (apdu : Bytes) (d : SecureData) (h : secureWith E key scf sb c apdu = .ok d) :
    d.seq = sb ∧ d.sapdu.length = apdu.length ∧ d.mac.length = 4 := by
  unfold secureWith at h
  split at h
  · exact secureAuth_shape E hE key scf sb c apdu d h
  · split at h
    · exact secureEnc_shape E hE key scf sb c apdu d h
    · simp at h

/-! ### wire format -/

/-- `SecureData.from_knx(d.to_knx()) == d` for a six-octet sequence number and four-octet MAC. -/
theorem fromKnx_toKnx (d : SecureData) (h6 : d.seq.length = 6) (h4 : d.mac.length = 4) :
    SecureData.fromKnx d.toKnx = d := by
  cases d with
  | mk seq sapdu mac =>
    simp only at h6 h4
    simp only [SecureData.fromKnx, SecureData.toKnx, List.length_append, h6, h4, SecureData.mk.injEq]
    refine ⟨?_, ?_, ?_⟩
    · rw [List.append_assoc, List.take_append_of_le_length (by omega)]
      rw [← h6, List.take_length]
    · have : 6 + sapdu.length + 4 - 4 = (seq ++ sapdu).length := by simp [h6]
      rw [this, List.take_left' rfl, ← h6, List.drop_left' rfl]
    · have : 6 + sapdu.length + 4 - 4 = (seq ++ sapdu).length := by simp [h6]
      rw [this, List.drop_left' rfl]

/-! ### the receive decision on a secured group frame -/

/-- The abstract event of a secured frame to a keyed address. -/
theorem evOf_secure (E : BlockFn) (ds : DS) (f : Frame) (innerOk : Bytes → Bool) (scf : Scf)
    (d : SecureData) (key : Bytes) (hp : f.payload = .secure scf d) (hk : keyFor ds.keys f.dst = some key) :
    evOf E ds f innerOk =
      { secure := true, group := f.group, keyed := true, svcOk := scf.service = svcData,
        toolSb := scf.systemBroadcast || scf.toolAccess, src := f.src, seq := Bytes.toNatBE d.seq,
        verify := getPlain E key scf f.ctx d,
        innerOk := innerOf innerOk (getPlain E key scf f.ctx d) } := by
  simp [evOf, hp, hk]

/-- Every test of `received_cemi` passed ⇒ the frame is delivered and the counter stored. -/
theorem received_secure_deliver (E : BlockFn) (r : DS) (f : Frame) (innerOk : Bytes → Bool) (scf : Scf)
    (d : SecureData) (key p : Bytes) (last : Nat)
    (hp : f.payload = .secure scf d) (hg : f.group = true) (hk : keyFor r.keys f.dst = some key)
    (hsvc : scf.service = svcData) (hsb : scf.systemBroadcast = false) (hta : scf.toolAccess = false)
    (hl : r.senders.lookup f.src = some last) (hlt : last < Bytes.toNatBE d.seq)
    (hv : getPlain E key scf f.ctx d = .ok p) (hin : innerOk p = true) :
    received E r f innerOk = ({ r with senders := setVal r.senders f.src (Bytes.toNatBE d.seq) }, .deliver p) := by
  unfold received
  rw [evOf_secure E r f innerOk scf d key hp hk, hv]
  have : decide (Bytes.toNatBE d.seq > last) = true := by simpa using hlt
  simp [recvStep, hg, hsvc, hsb, hta, hl, this, hin, innerOf]

end XknxVerif.DataSecure
