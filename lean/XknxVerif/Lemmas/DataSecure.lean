/-
Helper lemmas about the Data Secure model (used by Props/C15 … C19).
Core Lean only.
-/
import XknxVerif.Model.DataSecure

namespace XknxVerif.DataSecure
open XknxVerif.Crypto
open XknxVerif.Generated.DataSecure (algAuth algEnc svcData apciSecHigh apciSecLow sequenceNumberMax)

theorem algAuth_ne_algEnc : algAuth ≠ algEnc := by decide

/-! ### two-part CTR streaming -/

theorem ctrXor2_fst (E : BlockFn) (key ctr f s : Bytes) :
    (ctrXor2 E key ctr f s).1 =
      xorBytes s ((ctrStream E key (nblocks (f.length + s.length)) ctr).drop f.length) := by
  simp [ctrXor2, ctrXor, xorBytes_drop]

theorem ctrXor2_snd (E : BlockFn) (key ctr f s : Bytes) :
    (ctrXor2 E key ctr f s).2 =
      xorBytes f ((ctrStream E key (nblocks (f.length + s.length)) ctr).take f.length) := by
  simp [ctrXor2, ctrXor, xorBytes_take]

/-- The payload part depends on the first part only through its length. -/
theorem ctrXor2_fst_congr (E : BlockFn) (key ctr f f' s : Bytes) (h : f.length = f'.length) :
    (ctrXor2 E key ctr f s).1 = (ctrXor2 E key ctr f' s).1 := by
  rw [ctrXor2_fst, ctrXor2_fst, h]

/-- The MAC part is injective in the MAC (same length). -/
theorem ctrXor2_snd_inj (E : BlockFn) (hE : E.Len16) (key ctr f f' s : Bytes)
    (h : f.length = f'.length) (heq : (ctrXor2 E key ctr f s).2 = (ctrXor2 E key ctr f' s).2) :
    f = f' := by
  rw [ctrXor2_snd, ctrXor2_snd, ← h] at heq
  have hlen : f.length ≤ ((ctrStream E key (nblocks (f.length + s.length)) ctr).take f.length).length := by
    have := nblocks_ge (f.length + s.length)
    simp [ctrStream_length E hE]; omega
  generalize (ctrStream E key (nblocks (f.length + s.length)) ctr).take f.length = ks at heq hlen
  have h1 := xorBytes_cancel f ks hlen
  have h2 := xorBytes_cancel f' ks (by omega)
  rw [← h1, heq, h2]

/-! ### C15 core: what `init_from_plain_apdu` builds, `get_plain_apdu` opens -/

theorem plainAuth_secureAuth (E : BlockFn) (key : Bytes) (scf : Scf) (sb : Bytes)
    (c : Ctx) (apdu : Bytes) (d : SecureData)
    (h : secureAuth E key scf sb c apdu = .ok d) : plainAuth E key scf c d = .ok apdu := by
  unfold secureAuth at h
  unfold plainAuth
  cases hb : block0 sb c 0 with
  | error e => simp [hb] at h
  | ok b0 =>
    simp only [hb] at h
    cases hm : macCbc E key (scf.toKnx :: apdu) [] b0 with
    | error e => simp [hm] at h
    | ok m =>
      simp only [hm, Except.ok.injEq] at h
      subst h
      simp [hb, hm]

theorem plainEnc_secureEnc (E : BlockFn) (hE : E.Len16) (key : Bytes) (scf : Scf) (sb : Bytes)
    (c : Ctx) (apdu : Bytes) (d : SecureData)
    (h : secureEnc E key scf sb c apdu = .ok d) : plainEnc E key scf c d = .ok apdu := by
  unfold secureEnc at h
  unfold plainEnc
  cases hb : block0 sb c apdu.length with
  | error e => simp [hb] at h
  | ok b0 =>
    simp only [hb] at h
    cases hm : macCbc E key [scf.toKnx] apdu b0 with
    | error e => simp [hm] at h
    | ok m =>
      simp only [hm, Except.ok.injEq] at h
      subst h
      have hr := ctrXor2_roundtrip E hE key (counter0 sb c.addr) (m.take 4) apdu
      simp only at hr
      simp [hr, hb, hm]

/-- `get_plain_apdu ∘ init_from_plain_apdu = id`, for **every** block function with
16-octet outputs, every key, SCF, sequence-number octets, context and APDU. -/
theorem getPlain_secureWith (E : BlockFn) (hE : E.Len16) (key : Bytes) (scf : Scf) (sb : Bytes)
    (c : Ctx) (apdu : Bytes) (d : SecureData)
    (h : secureWith E key scf sb c apdu = .ok d) : getPlain E key scf c d = .ok apdu := by
  unfold secureWith at h
  unfold getPlain
  by_cases ha : scf.algorithm = algAuth
  · have hne : scf.algorithm ≠ algEnc := fun h' => algAuth_ne_algEnc (ha ▸ h')
    rw [if_pos ha] at h
    rw [if_neg hne, if_pos ha]
    exact plainAuth_secureAuth E key scf sb c apdu d h
  · rw [if_neg ha] at h
    by_cases he : scf.algorithm = algEnc
    · rw [if_pos he] at h
      rw [if_pos he]
      exact plainEnc_secureEnc E hE key scf sb c apdu d h
    · rw [if_neg he] at h
      simp at h

theorem secureAuth_of_plainAuth (E : BlockFn) (key : Bytes) (scf : Scf) (c : Ctx)
    (d : SecureData) (p : Bytes) (h : plainAuth E key scf c d = .ok p) :
    secureAuth E key scf d.seq c p = .ok d := by
  unfold plainAuth at h
  unfold secureAuth
  cases hb : block0 d.seq c 0 with
  | error e => simp [hb] at h
  | ok b0 =>
    simp only [hb] at h
    cases hm : macCbc E key (scf.toKnx :: d.sapdu) [] b0 with
    | error e => simp [hm] at h
    | ok m =>
      simp only [hm] at h
      by_cases hmac : m.take 4 = d.mac
      · simp only [hmac, ne_eq, not_true_eq_false, ↓reduceIte, Except.ok.injEq] at h
        subst h
        simp [hm, hmac]
      · simp [hmac] at h

theorem secureEnc_of_plainEnc (E : BlockFn) (hE : E.Len16) (key : Bytes) (scf : Scf) (c : Ctx)
    (d : SecureData) (p : Bytes) (h : plainEnc E key scf c d = .ok p) :
    secureEnc E key scf d.seq c p = .ok d := by
  unfold plainEnc at h
  unfold secureEnc
  simp only at h
  generalize hr : ctrXor2 E key (counter0 d.seq c.addr) d.mac d.sapdu = r at h
  cases hb : block0 d.seq c r.1.length with
  | error e => simp [hb] at h
  | ok b0 =>
    simp only [hb] at h
    cases hm : macCbc E key [scf.toKnx] r.1 b0 with
    | error e => simp [hm] at h
    | ok m =>
      simp only [hm] at h
      by_cases hmac : m.take 4 = r.2
      · simp only [hmac, ne_eq, not_true_eq_false, ↓reduceIte, Except.ok.injEq] at h
        subst h
        have hrt := ctrXor2_roundtrip E hE key (counter0 d.seq c.addr) d.mac d.sapdu
        simp only [hr] at hrt
        simp [hb, hm, hmac, hrt]
      · simp [hmac] at h

/-- **Acceptance characterisation**: a received ASDU is accepted with plaintext `p`
exactly when it is, octet for octet, what the sending algorithm produces for `p`. -/
theorem getPlain_ok_iff (E : BlockFn) (hE : E.Len16) (key : Bytes) (scf : Scf) (c : Ctx)
    (d : SecureData) (p : Bytes) :
    getPlain E key scf c d = .ok p ↔ secureWith E key scf d.seq c p = .ok d := by
  constructor
  · intro h
    unfold getPlain at h
    unfold secureWith
    by_cases he : scf.algorithm = algEnc
    · have hna : scf.algorithm ≠ algAuth := fun h' => algAuth_ne_algEnc (h' ▸ he)
      rw [if_pos he] at h
      rw [if_neg hna, if_pos he]
      exact secureEnc_of_plainEnc E hE key scf c d p h
    · rw [if_neg he] at h
      by_cases ha : scf.algorithm = algAuth
      · rw [if_pos ha] at h
        rw [if_pos ha]
        exact secureAuth_of_plainAuth E key scf c d p h
      · rw [if_neg ha] at h
        simp at h
  · exact getPlain_secureWith E hE key scf d.seq c p d

end XknxVerif.DataSecure
