/-
Round-trip lemmas shared by Props/C08 and Props/C10:
`decode p = ok v → encode v = ok p' ∧ decode p' = ok v` per codec family.
-/
import XknxVerif.Lemmas.DPTDecode
import XknxVerif.Lemmas.BytesInv

namespace XknxVerif.DPT
open XknxVerif.SF

/-- C08 for one payload: if it decodes, the value is accepted by the encoder and the new payload decodes
to the same value (text: with '?' for undecodable bytes). -/
def RT (ctx : Ctx) (r : Row) (p : Payload) : Prop :=
  ∀ v, decode ctx r p = .ok v → ∃ p', encodeVal ctx r v = .ok p' ∧ decode ctx r p' = .ok (expected r v)

theorem rtB_sound {ctx : Ctx} {r : Row} {p : Payload} (h : rtB ctx r p = true) : RT ctx r p := by
  intro v hv
  unfold rtB at h
  rw [hv] at h
  simp only [] at h
  split at h
  · rename_i p' hp'
    exact ⟨p', hp', by simpa using h⟩
  · cases h

/-- a payload the class refuses satisfies `RT` vacuously -/
theorem RT_of_error {ctx : Ctx} {r : Row} {p : Payload} {e : Err} (h : decode ctx r p = .error e) : RT ctx r p := by
  intro v hv; rw [h] at hv; cases hv

/-! ### classes whose decoder sees a single item (6 bit value or one octet): complete enumeration per row -/

theorem rt1_sound {ctx : Ctx} {r : Row} (hl : rawLen r = 1)
    (hA : ∀ k, k < 16 → rt1ChunkA ctx r k = true) (hB : ∀ k, k < 4 → rt1ChunkB ctx r k = true)
    (p : Payload) (hp : p.WF) : RT ctx r p := by
  have ha : ∀ b, b < 256 → rtB ctx r (.array [b]) = true := by
    intro b hb
    have := hA (b / 16) (by omega)
    unfold rt1ChunkA at this
    rw [List.all_eq_true] at this
    have := this (b % 16) (List.mem_range.mpr (Nat.mod_lt _ (by decide)))
    rwa [Nat.div_add_mod b 16] at this
  have hb : ∀ v, v < 64 → rtB ctx r (.binary v) = true := by
    intro v hv
    have := hB (v / 16) (by omega)
    unfold rt1ChunkB at this
    rw [List.all_eq_true] at this
    have := this (v % 16) (List.mem_range.mpr (Nat.mod_lt _ (by decide)))
    rwa [Nat.div_add_mod v 16] at this
  cases p with
  | binary v => exact rtB_sound (hb v hp)
  | array bs =>
    match bs, hp with
    | [b], hp => exact rtB_sound (ha b (hp b (by simp)))
    | [], _ =>
      apply RT_of_error (e := .parse)
      unfold decode validate
      unfold rawLen at hl
      cases hk : r.kind <;> simp [hk] at hl ⊢
      · simp [Except.bind]
      · rw [hl]; simp [Except.bind]
    | _ :: _ :: tl, _ =>
      apply RT_of_error (e := .parse)
      unfold decode validate
      unfold rawLen at hl
      cases hk : r.kind <;> simp [hk] at hl ⊢
      · simp [Except.bind]
      · rw [hl]
        have : ¬ (1 = tl.length + 1 + 1) := by omega
        simp [this, Except.bind]

/-! ### struct pack / unpack -/

theorem fmtInfo_sizes {fmt : String} {sz : Nat} {sg : Bool} (h : fmtInfo fmt = some (sz, sg)) :
    sz = 1 ∨ sz = 2 ∨ sz = 4 ∨ sz = 8 := by
  unfold fmtInfo at h
  split at h <;> simp at h <;> omega

/-- `struct.pack(fmt, struct.unpack(fmt, raw)[0]) == raw` -/
theorem structPack_unpack {fmt : String} {raw : List Nat} {i : Int} (hw : Bytes.WF raw)
    (h : structUnpack fmt raw = some i) : structPack fmt i = some raw := by
  unfold structUnpack at h
  unfold structPack
  cases hf : fmtInfo fmt with
  | none => simp [hf] at h
  | some pr =>
    obtain ⟨sz, signed⟩ := pr
    simp only [hf] at h ⊢
    have hsz := fmtInfo_sizes hf
    split at h
    · cases h
    · rename_i hlen
      have hlen : raw.length = sz := by simpa using hlen
      have hlt := Bytes.toNatBE_lt raw hw
      have hinv := Bytes.ofNatBE_toNatBE raw hw
      rw [hlen] at hlt hinv
      unfold fromBE at h
      unfold toBE
      generalize Bytes.toNatBE raw = u at *
      rcases hsz with rfl | rfl | rfl | rfl <;> cases signed <;>
        simp only [Bool.false_and, Bool.true_and, Bool.false_eq_true, if_false, if_true, decide_eq_true_eq,
          Nat.reducePow, Nat.reduceMul, Nat.reduceSub] at h hlt ⊢ <;>
        (try split at h) <;> injection h with h <;> subst h <;>
        (rw [if_pos (by omega)]; first
          | exact congrArg some hinv
          | (rw [← hinv]; congr 2; (try split) <;> omega))

theorem structUnpack_range {fmt : String} {raw : List Nat} {i : Int} {sz : Nat} {sg : Bool} (hw : Bytes.WF raw)
    (hf : fmtInfo fmt = some (sz, sg)) (h : structUnpack fmt raw = some i) :
    (if sg then -((2 ^ (8 * sz - 1) : Nat) : Int) else 0) ≤ i ∧
      i ≤ (if sg then ((2 ^ (8 * sz - 1) : Nat) : Int) - 1 else ((2 ^ (8 * sz) : Nat) : Int) - 1) := by
  unfold structUnpack at h
  simp only [hf] at h
  have hsz := fmtInfo_sizes hf
  split at h
  · cases h
  · rename_i hlen
    have hlen : raw.length = sz := by simpa using hlen
    have hlt := Bytes.toNatBE_lt raw hw
    rw [hlen] at hlt
    unfold fromBE at h
    generalize Bytes.toNatBE raw = u at *
    rcases hsz with rfl | rfl | rfl | rfl <;> cases sg <;>
      simp only [Bool.false_and, Bool.true_and, Bool.false_eq_true, if_false, if_true, decide_eq_true_eq,
        Nat.reducePow, Nat.reduceMul, Nat.reduceSub] at h hlt ⊢ <;>
      (try split at h) <;> injection h with h <;> subst h <;> omega

/-- shape of an accepted payload of an array class -/
theorem decode_array_shape {ctx : Ctx} {r : Row} {p : Payload} {v : Val} (hk : r.kind = .array)
    (h : decode ctx r p = .ok v) : ∃ raw, p = .array raw ∧ raw.length = r.length ∧ decodeRaw ctx r raw = .ok v := by
  unfold decode validate at h
  cases p with
  | binary b => simp [hk, Except.bind] at h
  | array raw =>
    simp only [hk] at h
    by_cases hl : r.length = raw.length
    · simp [hl, Except.bind] at h
      exact ⟨raw, rfl, hl.symm, h⟩
    · simp [hl, Except.bind] at h

theorem decode_array_of_raw {ctx : Ctx} {r : Row} {raw : List Nat} (hk : r.kind = .array)
    (hl : raw.length = r.length) : decode ctx r (.array raw) = decodeRaw ctx r raw := by
  unfold decode validate
  simp [hk, hl, Except.bind]

/-! ### DPTStructIntMixin (DPT 12, 13, 29) -/

/-- the declared range covers what the struct format can hold -/
def wfStructInt (r : Row) : Bool :=
  r.kind == .array &&
  match fmtInfo r.fmt, r.vmin, r.vmax with
  | some (sz, sg), .int lo, .int hi =>
    r.length == sz
      && decide (lo ≤ (if sg then -((2 ^ (8 * sz - 1) : Nat) : Int) else 0))
      && decide ((if sg then ((2 ^ (8 * sz - 1) : Nat) : Int) - 1 else ((2 ^ (8 * sz) : Nat) : Int) - 1) ≤ hi)
  | _, _, _ => false

theorem structint_rt (ctx : Ctx) (r : Row) (hf : r.family = .structint) (hwf : wfStructInt r = true)
    (p : Payload) (hp : p.WF) : RT ctx r p := by
  intro v hv
  unfold wfStructInt at hwf
  simp only [Bool.and_eq_true, beq_iff_eq] at hwf
  obtain ⟨hk, hrest⟩ := hwf
  obtain ⟨raw, rfl, hl, hd⟩ := decode_array_shape hk hv
  have hw : Bytes.WF raw := hp
  simp only [decodeRaw, hf, decStructInt] at hd
  cases hu : structUnpack r.fmt raw with
  | none => simp [hu] at hd
  | some i =>
    simp only [hu] at hd
    injection hd with hd; subst hd
    cases hfi : fmtInfo r.fmt with
    | none => simp [hfi] at hrest
    | some pr =>
      obtain ⟨sz, sg⟩ := pr
      cases hlo : r.vmin with
      | flt _ => simp [hfi, hlo] at hrest
      | int lo =>
        cases hhi : r.vmax with
        | flt _ => simp [hfi, hlo, hhi] at hrest
        | int hi =>
          simp only [hfi, hlo, hhi, Bool.and_eq_true, beq_iff_eq, decide_eq_true_eq] at hrest
          obtain ⟨⟨_, h1⟩, h2⟩ := hrest
          have hr := structUnpack_range hw hfi hu
          have hpk := structPack_unpack hw hu
          refine ⟨.array raw, ?_, ?_⟩
          · simp only [encodeVal, encodeNum, hf, encStructInt, pyInt, bind, Except.bind, pure, Except.pure,
              inRange, inRange', hlo, hhi, PyNum.le]
            have : (decide (lo ≤ i) && decide (i ≤ hi)) = true := by
              simp only [Bool.and_eq_true, decide_eq_true_eq]; omega
            simp [this, hpk]
          · rw [decode_array_of_raw hk hl]
            simp [decodeRaw, hf, decStructInt, hu, expected, hf]

/-! ### DPT 7 (2-octet unsigned, integer resolution) -/

/-- value range = raw range × resolution, resolution a positive int -/
def wfU16 (r : Row) : Bool :=
  r.kind == .array && r.length == 2 &&
  match r.res, r.vmin, r.vmax with
  | .int k, .int lo, .int hi => decide (0 < k) && lo == 0 && hi == 65535 * k
  | _, _, _ => false

theorem u16_rt (ctx : Ctx) (r : Row) (hf : r.family = .u16) (hwf : wfU16 r = true)
    (p : Payload) (hp : p.WF) : RT ctx r p := by
  intro v hv
  unfold wfU16 at hwf
  simp only [Bool.and_eq_true, beq_iff_eq] at hwf
  obtain ⟨⟨hk, hlen⟩, hrest⟩ := hwf
  obtain ⟨raw, rfl, hl, hd⟩ := decode_array_shape hk hv
  obtain ⟨a, b, rfl⟩ := len2 (hl.trans hlen)
  have ha : a < 256 := hp a (by simp)
  have hb : b < 256 := hp b (by simp)
  cases hres : r.res with
  | flt _ => simp [hres] at hrest
  | int k =>
    cases hlo : r.vmin with
    | flt _ => simp [hres, hlo] at hrest
    | int lo =>
      cases hhi : r.vmax with
      | flt _ => simp [hres, hlo, hhi] at hrest
      | int hi =>
        simp only [hres, hlo, hhi, Bool.and_eq_true, beq_iff_eq, decide_eq_true_eq] at hrest
        obtain ⟨⟨hk0, hlo0⟩, hhi0⟩ := hrest
        subst hlo0 hhi0
        simp only [decodeRaw, hf, decU16, hres] at hd
        injection hd with hd; subst hd
        have hn : a * 256 + b ≤ 65535 := by omega
        have hdiv : (((a * 256 + b : Nat) : Int) * k).fdiv k = ((a * 256 + b : Nat) : Int) := by
          rw [Int.fdiv_eq_ediv_of_nonneg _ (by omega)]
          exact Int.mul_ediv_cancel _ (by omega)
        refine ⟨.array [a, b], ?_, ?_⟩
        · simp only [encodeVal, encodeNum, hf, encU16, pyInt, bind, Except.bind, pure, Except.pure,
            inRange, inRange', hlo, hhi, hres, PyNum.le]
          have h1 : (0 : Int) ≤ ((a * 256 + b : Nat) : Int) * k := Int.mul_nonneg (by omega) (by omega)
          have h2 : ((a * 256 + b : Nat) : Int) * k ≤ 65535 * k := Int.mul_le_mul_of_nonneg_right (by omega) (by omega)
          have : (decide ((0 : Int) ≤ ((a * 256 + b : Nat) : Int) * k) && decide (((a * 256 + b : Nat) : Int) * k ≤ 65535 * k)) = true := by
            simp only [Bool.and_eq_true, decide_eq_true_eq]; exact ⟨h1, h2⟩
          have hk' : (k == 0) = false := by simp; omega
          simp only [this, hk', hdiv, Bool.not_true, Bool.false_eq_true, if_false]
          have h3 : ¬ (((a * 256 + b : Nat) : Int) < 0) := by omega
          simp only [h3, if_false, Int.toNat_natCast]
          have h4 : (a * 256 + b) >>> 8 = a := by rw [Nat.shiftRight_eq_div_pow]; omega
          have h5 : (a * 256 + b) % 256 = b := by omega
          rw [h4, h5]
        · rw [decode_array_of_raw hk (by simp [hlen])]
          simp [decodeRaw, hf, decU16, hres, expected]

/-! ### DPT 8 (2-octet signed, resolution through binary64 arithmetic): needs the numeric sweep -/

theorem numVal_encode (ctx : Ctx) (r : Row) (n : PyNum) : encodeVal ctx r (numVal n) = encodeNum r n := by
  cases n <;> rfl

theorem s16_rt (ctx : Ctx) (r : Row) (hf : r.family = .s16) (hk : r.kind = .array) (hlen : r.length = 2)
    (hfmt : r.fmt = ">h")
    (hcore : ∀ i : Int, -32768 ≤ i → i ≤ 32767 → s16Core (s16Params r) i = true)
    (p : Payload) (hp : p.WF) : RT ctx r p := by
  intro v hv
  obtain ⟨raw, rfl, hl, hd⟩ := decode_array_shape hk hv
  have hw : Bytes.WF raw := hp
  simp only [decodeRaw, hf, decS16] at hd
  cases hu : structUnpack r.fmt raw with
  | none => simp [hu] at hd
  | some i =>
    simp only [hu] at hd
    injection hd with hd; subst hd
    have hfi : fmtInfo r.fmt = some (2, true) := by rw [hfmt]; rfl
    have hr := structUnpack_range hw hfi hu
    simp only [if_true, Nat.reducePow, Nat.reduceMul, Nat.reduceSub] at hr
    have hpk := structPack_unpack hw hu
    have hc := hcore i (by omega) (by omega)
    unfold s16Core s16Params at hc
    have hc' : s16Raw r.vmin r.vmax r.res (s16Value r.res i) = .ok i := by simpa using hc
    refine ⟨.array raw, ?_, ?_⟩
    · rw [numVal_encode]
      simp [encodeNum, hf, encS16, hc', hpk, bind, Except.bind, pure, Except.pure]
    · rw [decode_array_of_raw hk hl]
      have : expected r (numVal (s16Value r.res i)) = numVal (s16Value r.res i) := by
        unfold expected; simp [hf]
      rw [this]
      simp [decodeRaw, hf, decS16, hu]


/-! ### DPT 9 (2-octet float): needs the numeric sweep; independent of the declared range -/

theorem decF16_eq (r : Row) (a b : Nat) :
    decF16 r [a, b] = if inRange r (.flt (f16Word (a * 256 + b))) then .ok (.atom (.flt (f16Word (a * 256 + b)))) else .error .conv := by
  unfold decF16 f16Word
  simp only []
  try (generalize f16Parts (a * 256 + b) = pr; obtain ⟨m, e⟩ := pr; rfl)

/-- the encoder on a value that passed the core check -/
theorem f16Enc_of_core (ok : F → Bool) (v : F) (hok : ok v = true) (hc : f16CoreV v = true) :
    ∃ x y, f16Enc ok v = .ok (.array [x, y]) ∧ f16Word (x * 256 + y) = v := by
  unfold f16CoreV at hc
  unfold f16Enc
  cases hpre : f16Pre v with
  | fail => rw [hpre] at hc; cases hc
  | zero =>
    rw [hpre] at hc
    exact ⟨0, 0, rfl, by simpa using hc⟩
  | cand k' e m0 mt =>
    rw [hpre] at hc
    simp only [Bool.and_eq_true, beq_iff_eq] at hc
    obtain ⟨hm0, hfin⟩ := hc
    simp only [hm0, hok, if_true]
    generalize f16Finish m0 e k' = fin at hfin ⊢
    match fin, hfin with
    | [x, y], hfin =>
      simp only [Bool.and_eq_true, decide_eq_true_eq, beq_iff_eq] at hfin
      exact ⟨x, y, rfl, hfin.2⟩

theorem f16_rt (ctx : Ctx) (r : Row) (hf : r.family = .f16) (hk : r.kind = .array) (hlen : r.length = 2)
    (hcore : ∀ data : Nat, data < 65536 → f16Core data = true)
    (p : Payload) (hp : p.WF) : RT ctx r p := by
  intro v hv
  obtain ⟨raw, rfl, hl, hd⟩ := decode_array_shape hk hv
  obtain ⟨a, b, rfl⟩ := len2 (hl.trans hlen)
  have ha : a < 256 := hp a (by simp)
  have hb : b < 256 := hp b (by simp)
  simp only [decodeRaw, hf, decF16_eq] at hd
  have hc := hcore (a * 256 + b) (by omega)
  unfold f16Core at hc
  generalize f16Word (a * 256 + b) = w at hd hc
  split at hd
  · rename_i hin
    injection hd with hd; subst hd
    have hexp : expected r (.atom (.flt w)) = .atom (.flt w) := by
      unfold expected; simp [hf]
    rw [hexp]
    have henc : encodeVal ctx r (.atom (.flt w)) = f16Enc (fun y => inRange r (.flt y)) w := by
      simp [encodeVal, encodeNum, hf, encF16, pyFloat, PyNum.toF?, hin, bind, Except.bind]
    obtain ⟨x, y, he, hw⟩ := f16Enc_of_core (fun y => inRange r (.flt y)) w hin hc
    refine ⟨.array [x, y], by rw [henc, he], ?_⟩
    rw [decode_array_of_raw hk (by simp [hlen])]
    simp only [decodeRaw, hf, decF16_eq]
    rw [hw, if_pos hin]
  · cases hd

end XknxVerif.DPT
