/-
Helper lemmas about the device-management model (`XknxVerif.Model.DevMgmt`).
-/
import XknxVerif.Model.DevMgmt

namespace XknxVerif.DevMgmt

/-- Generic induction over the timer loop. `P` must not depend on the clock. -/
theorem advance_induct (P : St → Prop) (Q : Out → Prop)
    (hfa : ∀ s, P s → P (fireAct s).1 ∧ ∀ o ∈ (fireAct s).2, Q o)
    (hfu : ∀ s, P s → P (fireUser s).1)
    (hnow : ∀ s t, P s → P { s with now := t }) :
    ∀ (fuel : Nat) (s : St) (t : Nat), P s → P (advance s t fuel).1 ∧ ∀ o ∈ (advance s t fuel).2, Q o := by
  intro fuel
  induction fuel with
  | zero => intro s t hp; exact ⟨hnow s _ hp, by simp [advance]⟩
  | succ n ih =>
    intro s t hp
    unfold advance
    simp only
    split
    · rename_i d isAct _
      split
      · cases isAct
        · have h1 := hfu _ (hnow s (max s.now d) hp)
          have h2 := ih (fireUser { s with now := max s.now d }).1 t h1
          simp only [Bool.false_eq_true, if_false]
          exact ⟨h2.1, by
            intro o ho
            simp only [fireUser, List.nil_append] at ho
            exact h2.2 o ho⟩
        · have h1 := hfa _ (hnow s (max s.now d) hp)
          have h2 := ih (fireAct { s with now := max s.now d }).1 t h1.1
          simp only [if_true]
          exact ⟨h2.1, by
            intro o ho
            rcases List.mem_append.mp ho with ho | ho
            · exact h1.2 o ho
            · exact h2.2 o ho⟩
      · exact ⟨hnow s _ hp, by simp⟩
    · exact ⟨hnow s _ hp, by simp⟩

/-! ### Where a result other than CommunicationError can come from -/

/-- Every result in `o` that is not CommunicationError is the verdict of `matches` on one of the frames `fs`. -/
def Justified (fs : List Frame) (o : Out) : Prop :=
  ∀ k res, o.2 = .res k res → res ≠ .comm →
    ∃ (r : Req) (f : Frame), f ∈ fs ∧ r.k = k ∧ r.matches f = true ∧ f.err = false ∧ res = r.resultOf f

/-- The frames buffered in a state. -/
def St.frames (s : St) : List Frame :=
  match s.act with
  | some a => (match a.pend with | .filled f => [f] | _ => [])
  | none => []

/-- All frames buffered in `s` are among `fs`. -/
def FramesIn (fs : List Frame) (s : St) : Prop := ∀ f ∈ s.frames, f ∈ fs

theorem framesIn_none {fs : List Frame} {s : St} (h : s.act = none) : FramesIn fs s := by
  intro f hf; simp [St.frames, h] at hf

theorem framesIn_of_pend {fs : List Frame} {s : St} {a : Active} (h : s.act = some a)
    (hp : ∀ f, a.pend = .filled f → f ∈ fs) : FramesIn fs s := by
  intro f hf
  cases hpe : a.pend with
  | filled g => simp [St.frames, h, hpe] at hf; rw [hf]; exact hp g hpe
  | empty => simp [St.frames, h, hpe] at hf
  | cancelled => simp [St.frames, h, hpe] at hf

theorem pend_of_framesIn {fs : List Frame} {s : St} {a : Active} {f : Frame} (h : FramesIn fs s)
    (ha : s.act = some a) (hp : a.pend = .filled f) : f ∈ fs := by
  apply h; simp [St.frames, ha, hp]

theorem not_res_justified (fs : List Frame) (t : Nat) (e : Ev) (h : ∀ k r, e ≠ .res k r) : Justified fs (t, e) := by
  intro k res hh; exact absurd hh (h k res)

theorem begin_spec (fs : List Frame) (s : St) (r : Req) (rest : List Req) :
    FramesIn fs (begin s r rest).1 ∧ ∀ o ∈ (begin s r rest).2, Justified fs o := by
  unfold begin
  split
  · exact ⟨framesIn_of_pend rfl (by intro f hf; simp at hf), by intro o ho; simp at ho; subst ho; exact not_res_justified fs _ _ (by intro k r; simp)⟩
  · exact ⟨framesIn_of_pend rfl (by intro f hf; simp at hf), by intro o ho; simp at ho; subst ho; exact not_res_justified fs _ _ (by intro k r; simp)⟩

theorem grantQ_spec (fs : List Frame) (q : List Req) : ∀ (s : St),
    FramesIn fs (grantQ s q).1 ∧ ∀ o ∈ (grantQ s q).2, Justified fs o := by
  induction q with
  | nil => intro s; exact ⟨framesIn_none rfl, by simp [grantQ]⟩
  | cons r rest ih =>
    intro s
    unfold grantQ
    split
    · exact begin_spec fs s r rest
    · have := ih s
      refine ⟨this.1, ?_⟩
      intro o ho
      simp only [List.mem_cons] at ho
      rcases ho with ho | ho
      · subst ho; intro k res h hne; simp at h; exact absurd h.2.symm hne
      · exact this.2 o ho

theorem finish_spec (fs : List Frame) (s : St) (a : Active) (res : Result)
    (hres : res ≠ .comm → ∃ f, f ∈ fs ∧ a.r.matches f = true ∧ f.err = false ∧ res = a.r.resultOf f) :
    FramesIn fs (finish s a res).1 ∧ ∀ o ∈ (finish s a res).2, Justified fs o := by
  unfold finish
  have := grantQ_spec fs s.queue { s with act := none }
  refine ⟨this.1, ?_⟩
  intro o ho
  simp only [List.mem_cons] at ho
  rcases ho with ho | ho
  · subst ho
    intro k res' h hne
    simp only [Ev.res.injEq] at h
    obtain ⟨rfl, rfl⟩ := h
    obtain ⟨f, hf, hm, he, hr⟩ := hres hne
    exact ⟨a.r, f, hf, rfl, hm, he, hr⟩
  · exact this.2 o ho

theorem resultOf_comm_of_err {r : Req} {f : Frame} (h : r.resultOf f ≠ .comm) : f.err = false := by
  unfold Req.resultOf at h
  cases he : f.err
  · rfl
  · simp [he] at h

theorem consume_spec (fs : List Frame) (s : St) (a : Active) (hp : ∀ f, a.pend = .filled f → f ∈ fs) :
    FramesIn fs (consume s a).1 ∧ ∀ o ∈ (consume s a).2, Justified fs o := by
  unfold consume
  split
  · rename_i f hf
    split
    · rename_i hm
      exact finish_spec fs s a _ (fun hne => ⟨f, hp f hf, hm, resultOf_comm_of_err hne, rfl⟩)
    · exact ⟨framesIn_of_pend rfl (by intro g hg; simp at hg), by simp⟩
  · exact finish_spec fs s a .comm (fun h => absurd rfl h)
  · exact ⟨framesIn_of_pend rfl hp, by simp⟩

theorem acknowledged_spec (fs : List Frame) (s : St) (a : Active) (hp : ∀ f, a.pend = .filled f → f ∈ fs) :
    FramesIn fs (acknowledged s a).1 ∧ ∀ o ∈ (acknowledged s a).2, Justified fs o := by
  unfold acknowledged
  exact consume_spec fs _ _ hp

theorem stop_filled {p : Pend} {f : Frame} (h : p.stop = .filled f) : p = .filled f := by
  cases p <;> simp [Pend.stop] at h ⊢; exact h

theorem giveUp_spec (fs : List Frame) (s : St) (a : Active) (hp : ∀ f, a.pend = .filled f → f ∈ fs) :
    FramesIn fs (giveUp s a).1 ∧ ∀ o ∈ (giveUp s a).2, Justified fs o := by
  unfold giveUp
  simp only
  split
  · refine ⟨framesIn_of_pend rfl (fun f hf => hp f (stop_filled hf)), ?_⟩
    intro o ho; simp at ho; subst ho; exact not_res_justified fs _ _ (by intro k r; simp)
  · exact finish_spec fs _ _ .comm (fun h => absurd rfl h)

theorem retry_spec (fs : List Frame) (a : Active) (hp : ∀ f, a.pend = .filled f → f ∈ fs) :
    ∀ (fuel : Nat) (s : St) (n : Nat), FramesIn fs (retry s a n fuel).1 ∧ ∀ o ∈ (retry s a n fuel).2, Justified fs o := by
  intro fuel
  induction fuel with
  | zero => intro s n; exact giveUp_spec fs s a hp
  | succ m ih =>
    intro s n
    unfold retry
    split
    · refine ⟨framesIn_of_pend rfl hp, ?_⟩
      intro o ho; simp at ho; subst ho; exact not_res_justified fs _ _ (by intro k r; simp)
    · exact ih s (n + 1)

theorem ackFailed_spec (fs : List Frame) (s : St) (a : Active) (n : Nat) (hp : ∀ f, a.pend = .filled f → f ∈ fs) :
    FramesIn fs (ackFailed s a n).1 ∧ ∀ o ∈ (ackFailed s a n).2, Justified fs o := by
  unfold ackFailed
  split
  · exact acknowledged_spec fs s a hp
  · exact retry_spec fs a hp _ s n

theorem fireAct_spec (fs : List Frame) (s : St) (h : FramesIn fs s) :
    FramesIn fs (fireAct s).1 ∧ ∀ o ∈ (fireAct s).2, Justified fs o := by
  unfold fireAct
  split
  · rename_i a ha
    have hp : ∀ f, a.pend = .filled f → f ∈ fs := fun f hf => pend_of_framesIn h ha hf
    split
    · exact ackFailed_spec fs s a _ hp
    · exact finish_spec fs s a .comm (fun h => absurd rfl h)
    · exact finish_spec fs _ a .comm (fun h => absurd rfl h)
  · exact ⟨h, by simp⟩

theorem framesIn_now {fs : List Frame} {s : St} (t : Nat) (h : FramesIn fs s) : FramesIn fs { s with now := t } := h

theorem advance_spec (fs : List Frame) (s : St) (t fuel : Nat) (h : FramesIn fs s) :
    FramesIn fs (advance s t fuel).1 ∧ ∀ o ∈ (advance s t fuel).2, Justified fs o :=
  advance_induct (FramesIn fs) (Justified fs) (fun s hs => fireAct_spec fs s hs)
    (fun s hs => by exact hs) (fun s t hs => framesIn_now t hs) fuel s t h

theorem framesIn_congr {fs : List Frame} {s s1 : St} (h : FramesIn fs s) (hact : s1.act = s.act) : FramesIn fs s1 := by
  intro f hf
  exact h f (by simpa [St.frames, hact] using hf)

theorem stopActive_spec (fs : List Frame) (s : St) (h : FramesIn fs s) :
    FramesIn fs (stopActive s).1 ∧ ∀ o ∈ (stopActive s).2, Justified fs o := by
  unfold stopActive
  split
  · exact ⟨h, by simp⟩
  · rename_i a ha
    have hp : ∀ f, a.pend.stop = .filled f → f ∈ fs :=
      fun f hf => pend_of_framesIn h ha (stop_filled hf)
    split
    · exact consume_spec fs _ _ hp
    · exact ⟨framesIn_of_pend rfl hp, by simp⟩

theorem connLost_spec (fs : List Frame) (s : St) (h : FramesIn fs s) :
    FramesIn fs (connLost s).1 ∧ ∀ o ∈ (connLost s).2, Justified fs o :=
  stopActive_spec fs _ (framesIn_congr h rfl)

theorem userClose_spec (fs : List Frame) (s : St) (h : FramesIn fs s) :
    FramesIn fs (userClose s).1 ∧ ∀ o ∈ (userClose s).2, Justified fs o := by
  unfold userClose
  split
  · have := stopActive_spec fs { s with chan := false, userDisc := some (s.now + DTMO) } (framesIn_congr h rfl)
    refine ⟨this.1, ?_⟩
    intro o ho
    simp only [List.mem_cons] at ho
    rcases ho with ho | ho
    · subst ho; exact not_res_justified fs _ _ (by intro k r; simp)
    · exact this.2 o ho
  · exact stopActive_spec fs _ (framesIn_congr h rfl)

theorem giveUpDone_spec (fs : List Frame) (s : St) (h : FramesIn fs s) :
    FramesIn fs (giveUpDone s).1 ∧ ∀ o ∈ (giveUpDone s).2, Justified fs o := by
  unfold giveUpDone
  split
  · split
    · exact finish_spec fs _ _ .comm (fun h => absurd rfl h)
    · exact ⟨h, by simp⟩
  · exact ⟨h, by simp⟩

theorem userDiscDone_act (s : St) : (userDiscDone s).act = s.act := by
  unfold userDiscDone; split <;> rfl

theorem deliver_spec (fs : List Frame) (s : St) (f : Frame) (h : FramesIn fs s) (hf : f ∈ fs) :
    FramesIn fs (deliver s f).1 ∧ ∀ o ∈ (deliver s f).2, Justified fs o := by
  unfold deliver
  split
  · exact ⟨h, by simp⟩
  · exact ⟨h, by intro o ho; simp at ho; rw [ho.2]; exact not_res_justified fs _ _ (by intro k r; simp)⟩
  · split
    · rename_i a ha
      split
      · have hp : ∀ g, (Pend.filled f) = .filled g → g ∈ fs := by intro g hg; simp at hg; subst hg; exact hf
        simp only
        split
        · exact consume_spec fs _ _ hp
        · exact ⟨framesIn_of_pend rfl hp, by simp⟩
      · exact ⟨h, by simp⟩
    · exact ⟨h, by simp⟩

/-- Frames a step can draw on: what is buffered, and the frame that arrives. -/
def available (s : St) : In → List Frame
  | .cemi _ _ f => f :: s.frames
  | _ => s.frames

theorem inject_spec (s : St) (i : In) (fs : List Frame) (h : FramesIn fs s)
    (hi : ∀ t q f, i = .cemi t q f → f ∈ fs) :
    FramesIn fs (inject s i).1 ∧ ∀ o ∈ (inject s i).2, Justified fs o := by
  cases i with
  | call t r =>
    simp only [inject]
    split
    · exact grantQ_spec fs _ s
    · rename_i a ha
      exact ⟨fun f hf => h f (by simpa [St.frames, ha] using hf), by simp⟩
  | ackIn t seq err chanOk =>
    simp only [inject]
    split
    · rename_i a ha
      have hp : ∀ f, a.pend = .filled f → f ∈ fs := fun f hf => pend_of_framesIn h ha hf
      split
      · split
        · split
          · exact ackFailed_spec fs s a _ hp
          · exact acknowledged_spec fs s a hp
        · exact ⟨h, by simp⟩
      · exact ⟨h, by simp⟩
    · exact ⟨h, by simp⟩
  | cemi t sseq f =>
    have hf := hi t sseq f rfl
    simp only [inject]
    split
    · exact ⟨h, by simp⟩
    · split
      · split
        · have := deliver_spec fs { s with sexp := (s.sexp + 1) % 256 } f h hf
          refine ⟨this.1, ?_⟩
          intro o ho
          simp only [List.mem_cons] at ho
          rcases ho with ho | ho
          · subst ho; exact not_res_justified fs _ _ (by intro k r; simp)
          · exact this.2 o ho
        · split
          · exact ⟨h, by intro o ho; simp at ho; subst ho; exact not_res_justified fs _ _ (by intro k r; simp)⟩
          · exact ⟨h, by simp⟩
      · exact deliver_spec fs s f h hf
  | close t c =>
    cases c with
    | server =>
      simp only [inject]
      split
      · have := connLost_spec fs s h
        refine ⟨this.1, ?_⟩
        intro o ho
        simp only [List.mem_cons] at ho
        rcases ho with ho | ho
        · subst ho; exact not_res_justified fs _ _ (by intro k r; simp)
        · exact this.2 o ho
      · exact ⟨h, by simp⟩
    | lost =>
      simp only [inject]
      split
      · exact connLost_spec fs s h
      · exact ⟨h, by simp⟩
    | user => simp only [inject]; exact userClose_spec fs s h
  | discResp t =>
    simp only [inject]
    exact giveUpDone_spec fs _ (framesIn_congr h (userDiscDone_act s))
  | fin t => exact ⟨h, by simp [inject]⟩

/-- Every result of a step that is not CommunicationError is justified by a frame buffered before the step or
arriving with it. -/
theorem step_justified (s : St) (i : In) : ∀ o ∈ (step s i).2, Justified (available s i) o := by
  have hfs : FramesIn (available s i) s := by
    intro f hf; cases i <;> simp [available, hf]
  have h1 := advance_spec (available s i) s i.time (fuelFor s) hfs
  have h2 := inject_spec (advance s i.time (fuelFor s)).1 i (available s i) h1.1
    (by intro t q f hi; subst hi; simp [available])
  intro o ho
  simp only [step, step2] at ho
  rcases List.mem_append.mp ho with ho | ho
  · exact h1.2 o ho
  · exact h2.2 o ho


/-! ### Bound on the transmissions of one request -/

/-- While a transmission awaits its ACK its number is between 1 and 1 + REPS. -/
def AttemptOk (s : St) : Prop :=
  ∀ a n dl, s.act = some a → a.stage = .ackWait n dl → 1 ≤ n ∧ n ≤ REPS + 1

theorem attemptOk_of_not_ackWait {s : St} (h : ∀ a, s.act = some a → ∀ n dl, a.stage ≠ .ackWait n dl) : AttemptOk s := by
  intro a n dl ha hs; exact absurd hs (h a ha n dl)

theorem begin_attempt (s : St) (r : Req) (rest : List Req) : AttemptOk (begin s r rest).1 := by
  unfold begin
  split
  · intro a n dl ha hs; simp at ha; subst ha; simp at hs; omega
  · intro a n dl ha hs; simp at ha; subst ha; simp at hs

theorem grantQ_attempt (q : List Req) : ∀ s : St, AttemptOk (grantQ s q).1 := by
  induction q with
  | nil => intro s a n dl ha; simp [grantQ] at ha
  | cons r rest ih =>
    intro s
    unfold grantQ
    split
    · exact begin_attempt s r rest
    · exact ih s

theorem finish_attempt (s : St) (a : Active) (res : Result) : AttemptOk (finish s a res).1 := by
  unfold finish; exact grantQ_attempt _ _

theorem consume_attempt (s : St) (a : Active) (h : ∀ n dl, a.stage = .ackWait n dl → 1 ≤ n ∧ n ≤ REPS + 1) :
    AttemptOk (consume s a).1 := by
  unfold consume
  split
  · split
    · exact finish_attempt _ _ _
    · intro a' n dl ha hs; simp at ha; subst ha; exact h n dl hs
  · exact finish_attempt _ _ _
  · intro a' n dl ha hs; simp at ha; subst ha; exact h n dl hs

theorem acknowledged_attempt (s : St) (a : Active) : AttemptOk (acknowledged s a).1 := by
  unfold acknowledged
  exact consume_attempt _ _ (by intro n dl h; simp at h)

theorem giveUp_attempt (s : St) (a : Active) : AttemptOk (giveUp s a).1 := by
  unfold giveUp
  simp only
  split
  · intro a' n dl ha hs; simp at ha; subst ha; simp at hs
  · exact finish_attempt _ _ _

theorem retry_attempt (a : Active) : ∀ (fuel : Nat) (s : St) (n : Nat), n + fuel = REPS + 1 →
    AttemptOk (retry s a n fuel).1 := by
  intro fuel
  induction fuel with
  | zero => intro s n _; exact giveUp_attempt s a
  | succ m ih =>
    intro s n hn
    unfold retry
    split
    · intro a' n' dl ha hs; simp at ha; subst ha; simp at hs; omega
    · exact ih s (n + 1) (by omega)

theorem ackFailed_attempt (s : St) (a : Active) (n : Nat) (hn : 1 ≤ n ∧ n ≤ REPS + 1) :
    AttemptOk (ackFailed s a n).1 := by
  unfold ackFailed
  split
  · exact acknowledged_attempt s a
  · unfold nextAttempt; exact retry_attempt a _ s n (by omega)

theorem fireAct_attempt (s : St) (h : AttemptOk s) : AttemptOk (fireAct s).1 := by
  unfold fireAct
  split
  · rename_i a ha
    split
    · rename_i n dl hs; exact ackFailed_attempt s a n (h a n dl ha hs)
    · exact finish_attempt _ _ _
    · exact finish_attempt _ _ _
  · exact h

theorem attemptOk_congr {s s1 : St} (h : AttemptOk s) (hact : s1.act = s.act) : AttemptOk s1 := by
  intro a n dl ha hs; exact h a n dl (by rw [← hact]; exact ha) hs

theorem advance_attempt (s : St) (t fuel : Nat) (h : AttemptOk s) : AttemptOk (advance s t fuel).1 :=
  (advance_induct AttemptOk (fun _ => True) (fun s hs => ⟨fireAct_attempt s hs, fun _ _ => trivial⟩)
    (fun _ hs => attemptOk_congr hs rfl) (fun _ _ hs => attemptOk_congr hs rfl) fuel s t h).1

theorem stopActive_attempt (s : St) (h : AttemptOk s) : AttemptOk (stopActive s).1 := by
  unfold stopActive
  split
  · exact h
  · rename_i a ha
    split
    · exact consume_attempt _ _ (by intro n dl hs; exact h a n dl ha hs)
    · intro a' n dl ha' hs; simp at ha'; subst ha'; exact h a n dl ha hs

theorem deliver_attempt (s : St) (f : Frame) (h : AttemptOk s) : AttemptOk (deliver s f).1 := by
  unfold deliver
  split
  · exact h
  · exact h
  · split
    · rename_i a ha
      split
      · simp only
        split
        · exact consume_attempt _ _ (by intro n dl hs; exact h a n dl ha hs)
        · intro a' n dl ha' hs; simp at ha'; subst ha'; exact h a n dl ha hs
      · exact h
    · exact h

theorem inject_attempt (s : St) (i : In) (h : AttemptOk s) : AttemptOk (inject s i).1 := by
  cases i with
  | call t r =>
    simp only [inject]
    split
    · exact grantQ_attempt _ _
    · exact attemptOk_congr h rfl
  | ackIn t seq err chanOk =>
    simp only [inject]
    split
    · rename_i a ha
      split
      · rename_i n dl hs
        split
        · split
          · exact ackFailed_attempt s a n (h a n dl ha hs)
          · exact acknowledged_attempt s a
        · exact h
      · exact h
    · exact h
  | cemi t sseq f =>
    simp only [inject]
    split
    · exact h
    · split
      · split
        · exact deliver_attempt _ f (attemptOk_congr h rfl)
        · split <;> exact h
      · exact deliver_attempt s f h
  | close t c =>
    cases c with
    | server =>
      simp only [inject]
      split
      · exact stopActive_attempt _ (attemptOk_congr h rfl)
      · exact h
    | lost =>
      simp only [inject]
      split
      · exact stopActive_attempt _ (attemptOk_congr h rfl)
      · exact h
    | user =>
      simp only [inject, userClose]
      split
      · exact stopActive_attempt _ (attemptOk_congr h rfl)
      · exact stopActive_attempt _ (attemptOk_congr h rfl)
  | discResp t =>
    simp only [inject, giveUpDone]
    split
    · split
      · exact finish_attempt _ _ _
      · exact attemptOk_congr h (userDiscDone_act s)
    · exact attemptOk_congr h (userDiscDone_act s)
  | fin t => exact h

theorem step_attempt (s : St) (i : In) (h : AttemptOk s) : AttemptOk (step s i).1 := by
  simp only [step, step2]
  exact inject_attempt _ i (advance_attempt s _ _ h)

/-! ### Closing -/

theorem grantQ_closed (q : List Req) : ∀ (s : St), s.chan = false →
    (grantQ s q).2 = q.map fun r => (s.now, Ev.res r.k .comm) := by
  induction q with
  | nil => intro s _; rfl
  | cons r rest ih =>
    intro s hc
    unfold grantQ
    simp [hc, ih s hc]

/-- No timer is due up to `t`. -/
def NoTimerBefore (s : St) (t : Nat) : Prop :=
  (∀ d, actDeadline s = some d → t < d) ∧ (∀ u, s.userDisc = some u → t < u)

theorem advance_idle (s : St) (t : Nat) (h : NoTimerBefore s t) : ∀ fuel, advance s t fuel = ({ s with now := max s.now t }, []) := by
  intro fuel
  cases fuel with
  | zero => rfl
  | succ n =>
    unfold advance
    simp only
    cases ha : actDeadline s with
    | none =>
      cases hu : s.userDisc with
      | none => simp
      | some u => have := h.2 u hu; simp; omega
    | some a =>
      have h1 := h.1 a ha
      cases hu : s.userDisc with
      | none => simp; omega
      | some u =>
        have h2 := h.2 u hu
        by_cases hle : a ≤ u
        · have : ¬ a ≤ t := by omega
          simp [hle, this]
        · have : ¬ u ≤ t := by omega
          simp [hle, this]


/-! ### One request on the wire at a time -/

/-- Follow who is on the wire: a transmission belongs to the caller already on the wire or puts its caller there
when nobody is; a result takes its caller off. `none` = two requests outstanding at once. -/
def track : Option Nat → List Ev → Option (Option Nat)
  | cur, [] => some cur
  | cur, .tx k _ _ _ :: es =>
    (match cur with
     | none => track (some k) es
     | some k' => if k = k' then track cur es else none)
  | cur, .res k _ :: es =>
    (match cur with
     | none => track none es
     | some k' => if k = k' then track none es else none)
  | cur, .ack _ :: es => track cur es
  | cur, .ind _ :: es => track cur es
  | cur, .dreq :: es => track cur es
  | cur, .dresp :: es => track cur es

def evs (o : List Out) : List Ev := o.map (·.2)

def holder (s : St) : Option Nat := s.act.map (·.r.k)

theorem track_append (cur : Option Nat) (a b : List Ev) :
    track cur (a ++ b) = (track cur a).bind fun c => track c b := by
  induction a generalizing cur with
  | nil => simp [track]
  | cons e es ih =>
    cases e <;> simp only [List.cons_append, track]
    · cases cur with
      | none => exact ih _
      | some k' => rename_i k _ _ _; by_cases hk : k = k' <;> simp [hk, ih]
    · exact ih _
    · exact ih _
    · cases cur with
      | none => exact ih _
      | some k' => rename_i k _; by_cases hk : k = k' <;> simp [hk, ih]
    · exact ih _
    · exact ih _

theorem begin_track (s : St) (r : Req) (rest : List Req) :
    track none (evs (begin s r rest).2) = some (holder (begin s r rest).1) := by
  unfold begin; split <;> simp [evs, track, holder]

theorem grantQ_track (q : List Req) : ∀ s : St,
    track none (evs (grantQ s q).2) = some (holder (grantQ s q).1) := by
  induction q with
  | nil => intro s; simp [grantQ, evs, track, holder]
  | cons r rest ih =>
    intro s
    unfold grantQ
    split
    · exact begin_track s r rest
    · simp only [evs, List.map_cons, track]
      exact ih s

theorem finish_track (s : St) (a : Active) (res : Result) :
    track (some a.r.k) (evs (finish s a res).2) = some (holder (finish s a res).1) := by
  unfold finish
  simp only [evs, List.map_cons, track, if_true]
  exact grantQ_track _ _

theorem consume_track (s : St) (a : Active) :
    track (some a.r.k) (evs (consume s a).2) = some (holder (consume s a).1) := by
  unfold consume
  split
  · split
    · exact finish_track _ _ _
    · simp [evs, track, holder]
  · exact finish_track _ _ _
  · simp [evs, track, holder]

theorem acknowledged_track (s : St) (a : Active) :
    track (some a.r.k) (evs (acknowledged s a).2) = some (holder (acknowledged s a).1) := by
  unfold acknowledged
  exact consume_track _ { a with stage := .ansWait (s.now + TMO) }

theorem giveUp_track (s : St) (a : Active) :
    track (some a.r.k) (evs (giveUp s a).2) = some (holder (giveUp s a).1) := by
  unfold giveUp
  simp only
  split
  · simp [evs, track, holder]
  · exact finish_track _ { a with pend := a.pend.stop } _

theorem retry_track (a : Active) : ∀ (fuel : Nat) (s : St) (n : Nat),
    track (some a.r.k) (evs (retry s a n fuel).2) = some (holder (retry s a n fuel).1) := by
  intro fuel
  induction fuel with
  | zero => intro s n; exact giveUp_track s a
  | succ m ih =>
    intro s n
    unfold retry
    split
    · simp [evs, track, holder]
    · exact ih s (n + 1)

theorem ackFailed_track (s : St) (a : Active) (n : Nat) :
    track (some a.r.k) (evs (ackFailed s a n).2) = some (holder (ackFailed s a n).1) := by
  unfold ackFailed
  split
  · exact acknowledged_track s a
  · exact retry_track a _ s n

theorem fireAct_track (s : St) : track (holder s) (evs (fireAct s).2) = some (holder (fireAct s).1) := by
  unfold fireAct
  split
  · rename_i a ha
    have hh : holder s = some a.r.k := by simp [holder, ha]
    rw [hh]
    split
    · exact ackFailed_track s a _
    · exact finish_track s a _
    · exact finish_track _ a _
  · simp [evs, track]

theorem holder_congr {s s1 : St} (h : s1.act = s.act) : holder s1 = holder s := by simp [holder, h]

theorem advance_track : ∀ (fuel : Nat) (s : St) (t : Nat),
    track (holder s) (evs (advance s t fuel).2) = some (holder (advance s t fuel).1) := by
  intro fuel
  induction fuel with
  | zero => intro s t; simp [advance, evs, track, holder]
  | succ n ih =>
    intro s t
    unfold advance
    simp only
    split
    · rename_i d isAct _
      split
      · cases isAct
        · simp only [Bool.false_eq_true, if_false, fireUser, List.nil_append]
          have := ih { s with now := max s.now d, userDisc := none, up := false } t
          exact this
        · simp only [if_true, evs, List.map_append]
          rw [track_append]
          have h1 : track (holder s) (List.map (fun x => x.snd) (fireAct { s with now := max s.now d }).2)
              = some (holder (fireAct { s with now := max s.now d }).1) := fireAct_track { s with now := max s.now d }
          rw [h1]
          exact ih _ t
      · simp [evs, track, holder]
    · simp [evs, track, holder]

theorem stopActive_track (s : St) : track (holder s) (evs (stopActive s).2) = some (holder (stopActive s).1) := by
  unfold stopActive
  split
  · simp [evs, track]
  · rename_i a ha
    have hh : holder s = some a.r.k := by simp [holder, ha]
    rw [hh]
    split
    · exact consume_track s { a with pend := a.pend.stop }
    · simp [evs, track, holder]

theorem deliver_track (s : St) (f : Frame) : track (holder s) (evs (deliver s f).2) = some (holder (deliver s f).1) := by
  unfold deliver
  split
  · simp [evs, track]
  · cases s.cb <;> simp [evs, track]
  · split
    · rename_i a ha
      have hh : holder s = some a.r.k := by simp [holder, ha]
      split
      · simp only
        split
        · rw [hh]; exact consume_track s { a with pend := .filled f }
        · simp [evs, track, holder, ha]
      · simp [evs, track]
    · simp [evs, track]

theorem inject_track (s : St) (i : In) : track (holder s) (evs (inject s i).2) = some (holder (inject s i).1) := by
  cases i with
  | call t r =>
    simp only [inject]
    split
    · rename_i hn; rw [show holder s = none by simp [holder, hn]]; exact grantQ_track _ s
    · simp [evs, track, holder]
  | ackIn t seq err chanOk =>
    simp only [inject]
    split
    · rename_i a ha
      have hh : holder s = some a.r.k := by simp [holder, ha]
      split
      · split
        · rw [hh]; split
          · exact ackFailed_track s a _
          · exact acknowledged_track s a
        · simp [evs, track]
      · simp [evs, track]
    · simp [evs, track]
  | cemi t sseq f =>
    simp only [inject]
    split
    · simp [evs, track]
    · split
      · split
        · simp only [evs, List.map_cons, track]
          have := deliver_track { s with sexp := (s.sexp + 1) % 256 } f
          exact this
        · split <;> simp [evs, track]
      · exact deliver_track s f
  | close t c =>
    cases c with
    | server =>
      simp only [inject]
      split
      · simp only [evs, List.map_cons, track, connLost]
        have := stopActive_track { s with chan := false, up := false }
        exact this
      · simp [evs, track]
    | lost =>
      simp only [inject]
      split
      · simp only [connLost]
        have := stopActive_track { s with chan := false, up := false }
        exact this
      · simp [evs, track]
    | user =>
      simp only [inject, userClose]
      split
      · simp only [evs, List.map_cons, track]
        have := stopActive_track { s with chan := false, userDisc := some (s.now + DTMO) }
        exact this
      · have := stopActive_track { s with chan := false, up := false }
        exact this
  | discResp t =>
    simp only [inject, giveUpDone]
    have hu := userDiscDone_act s
    split
    · rename_i a ha
      have hh : holder s = some a.r.k := by simp [holder, ← hu, ha]
      split
      · rw [hh]; exact finish_track _ a _
      · simp [evs, track, holder, hu]
    · simp [evs, track, holder, hu]
  | fin t => simp [inject, evs, track]

theorem step_track (s : St) (i : In) : track (holder s) (evs (step s i).2) = some (holder (step s i).1) := by
  simp only [step, step2, evs, List.map_append]
  rw [track_append]
  have h1 := advance_track (fuelFor s) s i.time
  simp only [evs] at h1
  rw [h1]
  exact inject_track _ i

end XknxVerif.DevMgmt
