/-
Round trip of DIB lists, SRPs and SRP lists (C21).
-/
import XknxVerif.Lemmas.KNXIPRoundtrip

namespace XknxVerif.KNXIP
open XknxVerif.Generated.KNXIP

theorem DIB.roundtrip (d : DIB) (hw : d.wf = true) :
    ∃ bs, d.serialize = .ok bs ∧ bs.length = d.calcLength ∧ 2 ≤ bs.length ∧
      ∀ rest, DIB.parse (bs ++ rest) = .ok (d, d.calcLength) := by
  cases d with
  | generic dtc data => exact DIB.roundtrip_generic dtc data hw
  | deviceInfo medium prog ia project inst serial mcast mac name =>
    exact DIB.roundtrip_deviceInfo medium prog ia project inst serial mcast mac name hw
  | families sec fams => exact DIB.roundtrip_families sec fams hw
  | tunnelingInfo maxApdu slots => exact DIB.roundtrip_tunnelingInfo maxApdu slots hw

theorem drop_of_len {α} {a b : List α} {n : Nat} (h : a.length = n) : (a ++ b).drop n = b := by
  subst h; simp

theorem take_of_len {α} {a b : List α} {n : Nat} (h : a.length = n) : (a ++ b).take n = a := by
  subst h; simp

theorem isEmpty_false_of_len {α} {a : List α} (b : List α) (h : 2 ≤ a.length) : (a ++ b).isEmpty = false := by
  cases a with
  | nil => simp at h
  | cons x xs => rfl

theorem dibs_roundtrip (dibs : List DIB) (hw : ∀ d ∈ dibs, d.wf = true) :
    ∃ bss, dibs.mapM DIB.serialize = .ok bss ∧ bss.flatten.length = (dibs.map DIB.calcLength).sum ∧
      parseDibs bss.flatten = .ok dibs := by
  induction dibs with
  | nil => exact ⟨[], rfl, rfl, parseDibs_nil⟩
  | cons d ds ih =>
    obtain ⟨bss, hser, hlen, hparse⟩ := ih (fun x hx => hw x (List.mem_cons_of_mem _ hx))
    obtain ⟨bs, hs, hl, h2, hp⟩ := DIB.roundtrip d (hw d (List.mem_cons_self))
    refine ⟨bs :: bss, ?_, ?_, ?_⟩
    · rw [List.mapM_cons, hs, hser]; rfl
    · simp [hl, hlen]
    · simp only [List.flatten_cons]
      rw [parseDibs_ok (isEmpty_false_of_len _ h2) (hp _), drop_of_len hl, hparse]
      rfl

/-! ### SRP -/

theorem srp_flags (m : Bool) (ty : Fin 8) :
    ((natOfBool m <<< 7) ||| (ty.val &&& 7)) &&& 0x7F = ty.val ∧
      (((natOfBool m <<< 7) ||| (ty.val &&& 7)) >>> 7 != 0) = m ∧
      ((natOfBool m <<< 7) ||| (ty.val &&& 7)) < 256 := by
  revert m ty; decide

@[simp] theorem exceptValueConversion_ok {α} (a : α) (h : PyM α) : exceptValueConversion (.ok a) h = .ok a := rfl

theorem SRP.roundtrip (s : SRP) (hw : s.wf = true) :
    ∃ bs, s.serialize = .ok bs ∧ bs.length = s.payloadSize ∧ 2 ≤ bs.length ∧
      ∀ rest, SRP.parse (bs ++ rest) = .ok s := by
  simp only [SRP.wf, Bool.and_eq_true, decide_eq_true_eq, octets_iff] at hw
  obtain ⟨⟨⟨⟨⟨hty, hty8⟩, hoct⟩, hps⟩, hpsz⟩, hinit⟩ := hw
  obtain ⟨hf1, hf2, hf3⟩ := srp_flags s.mandatory ⟨s.ty, hty8⟩
  simp only at hf1 hf2 hf3
  simp only [Const.srpHeaderSize] at hpsz
  refine ⟨s.payloadSize :: ((natOfBool s.mandatory <<< 7) ||| (s.ty &&& 7)) :: s.data, ?_, ?_, ?_, ?_⟩
  · unfold SRP.serialize
    rw [bytesOf_ok (by intro x hx; simp at hx; rcases hx with rfl | rfl <;> omega)]
    rfl
  · simp [hpsz]; omega
  · simp
  · intro rest
    unfold SRP.parse
    simp only [List.cons_append, List.length_cons, List.length_append, idx_cons_zero, idx_cons_succ, ok_bind,
      Const.srpHeaderSize]
    rw [if_neg (by omega), if_neg (by omega), hf1, enumOf_ok hty, ok_bind, hf2]
    have : Bytes.slice (s.payloadSize :: ((natOfBool s.mandatory <<< 7) ||| (s.ty &&& 7)) :: (s.data ++ rest)) 2
        s.payloadSize = s.data := by
      rw [hpsz, Nat.add_comm]; exact slice_cons2 _ _ _ _
    rw [this, hinit]
    rfl

theorem srps_roundtrip (srps : List SRP) (hw : ∀ s ∈ srps, s.wf = true) :
    ∃ bss, srps.mapM SRP.serialize = .ok bss ∧ bss.flatten.length = (srps.map (·.payloadSize)).sum ∧
      parseSrps bss.flatten = .ok srps := by
  induction srps with
  | nil => exact ⟨[], rfl, rfl, parseSrps_nil⟩
  | cons s ss ih =>
    obtain ⟨bss, hser, hlen, hparse⟩ := ih (fun x hx => hw x (List.mem_cons_of_mem _ hx))
    obtain ⟨bs, hs, hl, h2, hp⟩ := SRP.roundtrip s (hw s (List.mem_cons_self))
    refine ⟨bs :: bss, ?_, ?_, ?_⟩
    · rw [List.mapM_cons, hs, hser]; rfl
    · simp [hl, hlen]
    · simp only [List.flatten_cons]
      rw [parseSrps_ok (isEmpty_false_of_len _ h2) (hp _), drop_of_len hl, hparse]
      rfl

end XknxVerif.KNXIP
