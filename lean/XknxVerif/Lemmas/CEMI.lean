/-
Helper lemmas for the cEMI model: no parser stage lets a ConversionError through.
-/
import XknxVerif.Model.CEMI

namespace XknxVerif.CEMI
open XknxVerif.Generated

/-- split every `if`/`match` of hypothesis `h`, zeta-reducing `let`s on the way -/
macro "split_all " h:ident : tactic =>
  `(tactic| repeat' (first | split at $h:ident | (dsimp only at $h:ident; split at $h:ident)))

theorem propinfo_ne_conv (raw : Bytes) : PropInfo.fromKnx raw ≠ .error .conv := by
  unfold PropInfo.fromKnx
  intro h
  split_all h
  all_goals (cases h)

theorem pre_ne_conv (raw : Bytes) : pre raw ≠ .error .conv := by
  unfold pre
  intro h
  split_all h
  all_goals (cases h)

theorem ldata_ne_conv {α} (C : Codec α) (raw : Bytes) : LData.fromKnx C raw ≠ .error .conv := by
  unfold LData.fromKnx stage
  intro h
  split_all h
  all_goals (first | (cases h; done) | (cases h; exact pre_ne_conv _ (by assumption)))

theorem readcon_ne_conv (raw : Bytes) : propReadConFromKnx raw ≠ .error .conv := by
  unfold propReadConFromKnx
  intro h
  split_all h
  all_goals (first | (cases h; done) | (cases h; exact propinfo_ne_conv _ (by assumption)))

theorem write_ne_conv (raw : Bytes) : propWriteFromKnx raw ≠ .error .conv := by
  unfold propWriteFromKnx
  intro h
  split_all h
  all_goals (first | (cases h; done) | (cases h; exact propinfo_ne_conv _ (by assumption)))

theorem writecon_ne_conv (raw : Bytes) : propWriteConFromKnx raw ≠ .error .conv := by
  unfold propWriteConFromKnx
  intro h
  split_all h
  all_goals (first | (cases h; done) | (cases h; exact propinfo_ne_conv _ (by assumption)))

theorem ldata_eq_stage {α} (C : Codec α) (raw : Bytes) : LData.fromKnx C raw = stage C (pre raw) := rfl

def isLDataCode (code : Nat) : Bool :=
  code == Cemi.l_data_ind || code == Cemi.l_data_req || code == Cemi.l_data_con

end XknxVerif.CEMI
