/-
Unfolding equations for the two well-founded loops (`parseDibs`, `parseSrps`).
-/
import XknxVerif.Model.KNXIP.Body

namespace XknxVerif.KNXIP

theorem parseDibs_nil : parseDibs [] = .ok [] := by
  rw [parseDibs]; rfl

theorem parseDibs_error {raw : Bytes} {e : Exc} (hne : raw.isEmpty = false) (h : DIB.parse raw = .error e) :
    parseDibs raw = .error e := by
  rw [parseDibs]
  simp only [hne, Bool.false_eq_true, ↓reduceIte]
  split
  · rename_i e' h'; rw [h] at h'; cases h'; rfl
  · rename_i d n h'; rw [h] at h'; cases h'

theorem parseDibs_ok {raw : Bytes} {d : DIB} {n : Nat} (hne : raw.isEmpty = false) (h : DIB.parse raw = .ok (d, n)) :
    parseDibs raw = parseDibs (raw.drop n) >>= fun rest => .ok (d :: rest) := by
  rw [parseDibs]
  simp only [hne, Bool.false_eq_true, ↓reduceIte]
  split
  · rename_i e' h'; rw [h] at h'; cases h'
  · rename_i d' n' h'; rw [h] at h'; cases h'; rfl

theorem parseSrps_nil : parseSrps [] = .ok [] := by
  rw [parseSrps]; rfl

theorem parseSrps_error {raw : Bytes} {e : Exc} (hne : raw.isEmpty = false) (h : SRP.parse raw = .error e) :
    parseSrps raw = .error e := by
  rw [parseSrps]
  simp only [hne, Bool.false_eq_true, ↓reduceIte]
  split
  · rename_i e' h'; rw [h] at h'; cases h'; rfl
  · rename_i s h'; rw [h] at h'; cases h'

theorem parseSrps_ok {raw : Bytes} {s : SRP} (hne : raw.isEmpty = false) (h : SRP.parse raw = .ok s) :
    parseSrps raw = parseSrps (raw.drop s.payloadSize) >>= fun rest => .ok (s :: rest) := by
  rw [parseSrps]
  simp only [hne, Bool.false_eq_true, ↓reduceIte]
  split
  · rename_i e' h'; rw [h] at h'; cases h'
  · rename_i s' h'; rw [h] at h'; cases h'; rfl

end XknxVerif.KNXIP
