/-
Round trip of the body classes (C21), part 2: fixed layouts and cEMI / data carriers.
-/
import XknxVerif.Lemmas.KNXIPRoundtrip3

namespace XknxVerif.KNXIP
open XknxVerif.Generated.KNXIP

theorem rt_connResponse (k : ConnKind) (ch st : Nat) (hch : ch < 256) (hst : st ∈ ErrorCode.codes) :
    BodyRT (.connResponse k ch st) := by
  have hst256 := errorCode_lt st hst
  refine ⟨[ch, st], ?_, ?_, ?_⟩
  · simp only [Body.serialize]
    exact bytesOf_ok (by intro x hx; simp at hx; rcases hx with rfl | rfl <;> omega)
  · cases k <;> rfl
  · have : parseConnResponse k [ch, st] = .ok (.connResponse k ch st) := by
      unfold parseConnResponse
      simp only [List.length_cons, List.length_nil, idx_cons_zero, idx_cons_succ, ok_bind, enumOf_ok hst,
        exceptValue_ok]
      cases k <;> rfl
    cases k
    · have hd : parseBody (Body.connResponse .connectionState ch st).serviceType [ch, st] =
          parseConnResponse .connectionState [ch, st] := by dispatch
      rw [hd]; exact this
    · have hd : parseBody (Body.connResponse .disconnect ch st).serviceType [ch, st] =
          parseConnResponse .disconnect [ch, st] := by dispatch
      rw [hd]; exact this

theorem reqHeaderLength_eq (k : ReqKind) : reqHeaderLength k = 4 := by cases k <;> rfl
theorem ackLength_eq (k : ReqKind) : ackLength k = 4 := by cases k <;> rfl

theorem rt_cemiRequest (k : ReqKind) (ch seq : Nat) (cemi : Bytes) (hch : ch < 256) (hseq : seq < 256) :
    BodyRT (.cemiRequest k ch seq cemi) := by
  refine ⟨[4, ch, seq, 0] ++ cemi, ?_, ?_, ?_⟩
  · simp only [Body.serialize, reqHeaderLength_eq]
    rw [bytesOf_ok (by intro x hx; simp at hx; rcases hx with rfl | rfl | rfl | rfl <;> omega)]; rfl
  · simp [Body.calcLength, reqHeaderLength_eq]; omega
  · have : parseCemiRequest k ([4, ch, seq, 0] ++ cemi) = .ok (.cemiRequest k ch seq cemi) := by
      unfold parseCemiRequest
      simp only [reqHeaderLength_eq, List.cons_append, List.nil_append, List.length_cons, idx_cons_zero,
        idx_cons_succ, ok_bind, List.drop_succ_cons, List.drop_zero]
      rw [if_neg (by omega), if_neg (by omega)]
    cases k
    · have hd : parseBody (Body.cemiRequest .tunnelling ch seq cemi).serviceType ([4, ch, seq, 0] ++ cemi) =
          parseCemiRequest .tunnelling ([4, ch, seq, 0] ++ cemi) := by dispatch
      rw [hd]; exact this
    · have hd : parseBody (Body.cemiRequest .deviceConfiguration ch seq cemi).serviceType ([4, ch, seq, 0] ++ cemi) =
          parseCemiRequest .deviceConfiguration ([4, ch, seq, 0] ++ cemi) := by dispatch
      rw [hd]; exact this

theorem rt_cemiAck (k : ReqKind) (ch seq st : Nat) (hch : ch < 256) (hseq : seq < 256) (hst : st ∈ ErrorCode.codes) :
    BodyRT (.cemiAck k ch seq st) := by
  have hst256 := errorCode_lt st hst
  refine ⟨[4, ch, seq, st], ?_, ?_, ?_⟩
  · simp only [Body.serialize, ackLength_eq]
    exact bytesOf_ok (by intro x hx; simp at hx; rcases hx with rfl | rfl | rfl | rfl <;> omega)
  · simp [Body.calcLength, ackLength_eq]
  · have : parseCemiAck k [4, ch, seq, st] = .ok (.cemiAck k ch seq st) := by
      unfold parseCemiAck
      simp only [ackLength_eq, List.length_cons, List.length_nil, idx_cons_zero, idx_cons_succ, ok_bind,
        enumOf_ok hst, exceptValue_ok]
      rw [if_neg (by omega), if_neg (by omega)]
    cases k
    · have hd : parseBody (Body.cemiAck .tunnelling ch seq st).serviceType [4, ch, seq, st] =
          parseCemiAck .tunnelling [4, ch, seq, st] := by dispatch
      rw [hd]; exact this
    · have hd : parseBody (Body.cemiAck .deviceConfiguration ch seq st).serviceType [4, ch, seq, st] =
          parseCemiAck .deviceConfiguration [4, ch, seq, st] := by dispatch
      rw [hd]; exact this

theorem packS_even {data : Bytes} (h : data.length % 2 = 0) : packS (data.length + data.length % 2) data = data := by
  unfold packS
  rw [h]
  simp

theorem rt_feature (k : FeatKind) (ch seq st ft : Nat) (data : Bytes) (hch : ch < 256) (hseq : seq < 256)
    (hst : st ∈ ErrorCode.codes) (hft : ft ∈ TunnellingFeatureType.codes)
    (hdata : if k.hasData then data.isEmpty = false ∧ data.length % 2 = 0 else data = []) :
    BodyRT (.feature k ch seq st ft data) := by
  have hst256 := errorCode_lt st hst
  have hft256 := featureType_lt ft hft
  have hpack : packS (if k.hasData then data.length + data.length % 2 else 0) data = data := by
    cases hk : k.hasData
    · rw [hk] at hdata; simp only [Bool.false_eq_true, ↓reduceIte] at hdata; subst hdata; rfl
    · rw [hk] at hdata; simp only [↓reduceIte] at hdata ⊢; exact packS_even hdata.2
  refine ⟨[4, ch, seq, st, ft, 0] ++ data, ?_, ?_, ?_⟩
  · simp only [Body.serialize, Const.tunnellingFeatureHeaderLength]
    rw [bytesOf_ok (by intro x hx; simp at hx; rcases hx with rfl | rfl | rfl | rfl | rfl | rfl <;> omega), ok_bind,
      hpack]
  · simp only [Body.calcLength, Const.tunnellingFeatureHeaderLength, Const.tunnellingFeatureIdLength,
      List.length_append, List.length_cons, List.length_nil]
    cases hk : k.hasData
    · rw [hk] at hdata; simp only [Bool.false_eq_true, ↓reduceIte] at hdata; subst hdata; rfl
    · rw [hk] at hdata; simp only [↓reduceIte] at hdata ⊢; omega
  · have : parseFeature k ([4, ch, seq, st, ft, 0] ++ data) = .ok (.feature k ch seq st ft data) := by
      unfold parseFeature
      simp only [Const.tunnellingFeatureHeaderLength, Const.tunnellingFeatureIdLength, List.cons_append,
        List.nil_append, List.length_cons, idx_cons_zero, idx_cons_succ, ok_bind, enumOf_ok hst, enumOf_ok hft,
        exceptValue_ok, List.drop_succ_cons, List.drop_zero]
      rw [if_neg (by omega), if_neg (by omega)]
      cases hk : k.hasData
      · rw [hk] at hdata; simp only [Bool.false_eq_true, ↓reduceIte] at hdata; subst hdata; simp
      · rw [hk] at hdata; simp only [↓reduceIte] at hdata
        have : data.length ≠ 0 := by
          intro h0
          have := List.eq_nil_of_length_eq_zero h0
          subst this; simp at hdata
        simp [this]
    cases k
    · have hd : parseBody (Body.feature .get ch seq st ft data).serviceType ([4, ch, seq, st, ft, 0] ++ data) =
          parseFeature .get ([4, ch, seq, st, ft, 0] ++ data) := by dispatch
      rw [hd]; exact this
    · have hd : parseBody (Body.feature .set ch seq st ft data).serviceType ([4, ch, seq, st, ft, 0] ++ data) =
          parseFeature .set ([4, ch, seq, st, ft, 0] ++ data) := by dispatch
      rw [hd]; exact this
    · have hd : parseBody (Body.feature .info ch seq st ft data).serviceType ([4, ch, seq, st, ft, 0] ++ data) =
          parseFeature .info ([4, ch, seq, st, ft, 0] ++ data) := by dispatch
      rw [hd]; exact this

theorem rt_featureResponse (ch seq st ft rc : Nat) (data : Bytes) (hch : ch < 256) (hseq : seq < 256)
    (hst : st ∈ ErrorCode.codes) (hft : ft ∈ TunnellingFeatureType.codes) (hrc : rc ∈ ReturnCode.codes)
    (heven : data.length % 2 = 0) (hne : rc ≠ ReturnCode.e_success ∨ data.isEmpty = false) :
    BodyRT (.featureResponse ch seq st ft rc data) := by
  have hst256 := errorCode_lt st hst
  have hft256 := featureType_lt ft hft
  have hrc256 := returnCode_lt rc hrc
  refine ⟨[4, ch, seq, st, ft, rc] ++ data, ?_, ?_, ?_⟩
  · simp only [Body.serialize, Const.tunnellingFeatureHeaderLength]
    rw [bytesOf_ok (by intro x hx; simp at hx; rcases hx with rfl | rfl | rfl | rfl | rfl | rfl <;> omega), ok_bind,
      packS_even heven]
  · simp only [Body.calcLength, Const.tunnellingFeatureHeaderLength, Const.tunnellingFeatureIdLength,
      List.length_append, List.length_cons, List.length_nil]
    omega
  · have hd : parseBody (Body.featureResponse ch seq st ft rc data).serviceType ([4, ch, seq, st, ft, rc] ++ data) =
        parseFeatureResponse ([4, ch, seq, st, ft, rc] ++ data) := by dispatch
    rw [hd]
    unfold parseFeatureResponse
    simp only [Const.tunnellingFeatureHeaderLength, Const.tunnellingFeatureIdLength, List.cons_append,
      List.nil_append, List.length_cons, idx_cons_zero, idx_cons_succ, ok_bind, enumOf_ok hst, enumOf_ok hft,
      enumOf_ok hrc, exceptValue_ok, List.drop_succ_cons, List.drop_zero]
    rw [if_neg (by omega), if_neg (by omega), if_neg]
    rintro ⟨h1, h2⟩
    rcases hne with h | h
    · exact h h1
    · have := List.eq_nil_of_length_eq_zero h2
      subst this; simp at h

theorem rt_routingIndication (cemi : Bytes) : BodyRT (.routingIndication cemi) := by
  refine ⟨cemi, rfl, rfl, ?_⟩
  dispatch
  rfl

theorem rt_routingLostMessage (st lost : Nat) (hst : st < 256) (hl : lost < 65536) :
    BodyRT (.routingLostMessage st lost) := by
  refine ⟨[4, st, lost / 256, lost % 256], ?_, ?_, ?_⟩
  · simp only [Body.serialize, Const.routingLostMessageLength]
    rw [bytesOf_ok (by intro x hx; simp at hx; rcases hx with rfl | rfl <;> omega), ok_bind, toBytes_two hl]; rfl
  · rfl
  · have hd : parseBody (Body.routingLostMessage st lost).serviceType [4, st, lost / 256, lost % 256] =
        parseRoutingLostMessage [4, st, lost / 256, lost % 256] := by dispatch
    rw [hd]
    unfold parseRoutingLostMessage
    simp only [Const.routingLostMessageLength, List.length_cons, List.length_nil, idx_cons_zero, idx_cons_succ,
      ok_bind, Nat.div_add_mod']
    rw [if_neg (by omega), if_neg (by omega)]

theorem rt_routingBusy (st w c : Nat) (hst : st < 256) (hw : w < 65536) (hc : c < 65536) :
    BodyRT (.routingBusy st w c) := by
  refine ⟨[6, st, w / 256, w % 256, c / 256, c % 256], ?_, ?_, ?_⟩
  · simp only [Body.serialize, Const.routingBusyLength]
    rw [bytesOf_ok (by intro x hx; simp at hx; rcases hx with rfl | rfl <;> omega), ok_bind, toBytes_two hw, ok_bind,
      toBytes_two hc]; rfl
  · rfl
  · have hd : parseBody (Body.routingBusy st w c).serviceType [6, st, w / 256, w % 256, c / 256, c % 256] =
        parseRoutingBusy [6, st, w / 256, w % 256, c / 256, c % 256] := by dispatch
    rw [hd]
    unfold parseRoutingBusy
    simp only [Const.routingBusyLength, List.length_cons, List.length_nil, idx_cons_zero, idx_cons_succ,
      ok_bind, Nat.div_add_mod']
    rw [if_neg (by omega), if_neg (by omega)]

end XknxVerif.KNXIP
