-- Root of the `XknxVerif` library: models, lemmas and property theorems.
import XknxVerif.Audit
import XknxVerif.Model.TPCI
import XknxVerif.Props.C03
