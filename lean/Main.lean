/-
Line-protocol driver over all executable models: one op per input line,
`<model> <op> <args…>`; one output line per input line.
-/
import XknxVerif.Model.TPCI

def dispatch : List String → String
  | "tpci" :: rest => XknxVerif.TPCI.handle rest
  | _ => "bad-op"

partial def loop (inp out : IO.FS.Stream) : IO Unit := do
  let line ← inp.getLine
  if line.isEmpty then return ()
  out.putStrLn (dispatch (line.trimAscii.toString.splitOn " "))
  loop inp out

def main : IO Unit := do
  loop (← IO.getStdin) (← IO.getStdout)
